package main

import (
	"encoding/hex"
	"encoding/json"
	"flag"
	"fmt"
	"math/rand"
	"os"
	"sort"
	"strings"
	"sync/atomic"
	"time"
)

type driver func(a *Args)

// Args are the common command-line arguments of every driver.
type Args struct {
	Seed int64
	Tier string
	In   string
	In2  string
	Reg  string
	Out  string
	N    int
	Part int
	Of   int
	Rest []string
	rng  *rand.Rand
}

func (a *Args) Rand() *rand.Rand {
	if a.rng == nil {
		a.rng = rand.New(rand.NewSource(a.Seed))
	}
	return a.rng
}

var drivers = map[string]driver{}

func fatal(f string, v ...any) {
	fmt.Fprintf(os.Stderr, "harness: "+f+"\n", v...)
	os.Exit(2)
}

func main() {
	if len(os.Args) < 2 {
		names := []string{}
		for n := range drivers {
			names = append(names, n)
		}
		sort.Strings(names)
		fatal("usage: harness <driver> [flags]; drivers: %v", names)
	}
	d, ok := drivers[os.Args[1]]
	if !ok {
		fatal("unknown driver %q", os.Args[1])
	}
	fs := flag.NewFlagSet(os.Args[1], flag.ExitOnError)
	a := &Args{}
	fs.Int64Var(&a.Seed, "seed", 1, "seed for every random choice")
	fs.StringVar(&a.Tier, "tier", "quick", "quick|thorough")
	fs.StringVar(&a.In, "in", "", "input file (generated cases)")
	fs.StringVar(&a.In2, "in2", "", "second input file")
	fs.StringVar(&a.Reg, "reg", "", "extension profiles to register (X1,X2,X3)")
	fs.StringVar(&a.Out, "out", "", "output trace file (NDJSON)")
	fs.IntVar(&a.N, "n", 0, "size parameter")
	fs.IntVar(&chunkFlag, "chunk", 0, "events per trace file")
	fs.StringVar(&markerPath, "marker", "", "file in which the index of the case about to run is recorded")
	fs.StringVar(&crashedFlag, "crashed", "", "cases that killed an earlier worker: idx:kind,...")
	fs.IntVar(&resumeFrom, "resume", 0, "fast-forward (generate but do not execute or emit) the guarded cases below this index")
	fs.IntVar(&a.Part, "part", 0, "partition index")
	fs.IntVar(&a.Of, "of", 1, "number of partitions")
	fs.Parse(os.Args[2:])
	a.Rest = fs.Args()
	d(a)
}

func readFile(p string) ([]byte, error) { return os.ReadFile(p) }

func loadJSON(path string, v any) {
	b, err := os.ReadFile(path)
	if err != nil {
		fatal("read %s: %v", path, err)
	}
	if err := json.Unmarshal(b, v); err != nil {
		fatal("parse %s: %v", path, err)
	}
}

func hexs(b []byte) string { return hex.EncodeToString(b) }

func (a *Args) hasRest(w string) bool {
	for _, r := range a.Rest {
		if r == w {
			return true
		}
	}
	return false
}

// safely runs f and reports whether it panicked (a library panic is an observation, not a crash
// of the harness).
func safely(f func()) (panicked bool) {
	defer func() {
		if p := recover(); p != nil {
			panicked = true
		}
	}()
	f()
	return false
}

// Worker protocol for inputs that may kill the process (out of memory, hang): before a guarded case
// runs its index is written to the marker file; the orchestrator restarts the driver with the list of
// cases that killed earlier workers, which are then reported (outcome oom / timeout / crash) instead
// of executed.
var (
	markerPath  string
	crashedFlag string
	crashedMap  map[int]string
	resumeFrom  int
)

func guardedCase(idx int) (skipKind string) {
	if crashedMap == nil {
		crashedMap = map[int]string{}
		for _, part := range strings.Split(crashedFlag, ",") {
			var i int
			var k string
			if n, _ := fmt.Sscanf(strings.Replace(part, ":", " ", 1), "%d %s", &i, &k); n == 2 {
				crashedMap[i] = k
			}
		}
	}
	if idx < resumeFrom {
		return "skip"
	}
	if k, ok := crashedMap[idx]; ok {
		return k
	}
	if markerPath != "" {
		if markerFile == nil {
			f, err := os.OpenFile(markerPath, os.O_CREATE|os.O_WRONLY|os.O_TRUNC, 0o644)
			if err != nil {
				fatal("marker: %v", err)
			}
			markerFile = f
			go watchdog()
		}
		markerFile.WriteAt([]byte(fmt.Sprintf("%-14d\n", idx)), 0)
		caseStart.Store(time.Now().UnixNano())
	}
	return ""
}

var (
	markerFile *os.File
	caseStart  atomic.Int64
)

// watchdog: a guarded case running for more than 8 s ends the worker (exit 97); the orchestrator
// records the case as a timeout and resumes after it.
func watchdog() {
	for {
		time.Sleep(250 * time.Millisecond)
		if st := caseStart.Load(); st != 0 && time.Since(time.Unix(0, st)) > 8*time.Second {
			fmt.Fprintln(os.Stderr, "WATCHDOG: case exceeded 8 s")
			os.Exit(97)
		}
	}
}

// guardedDone is called when the guarded part of a driver is over.
func guardedDone() { caseStart.Store(0) }
