package main

import (
	"encoding/hex"
	"encoding/json"
	"flag"
	"fmt"
	"math/rand"
	"os"
	"sort"
)

type driver func(a *Args)

// Args are the common command-line arguments of every driver.
type Args struct {
	Seed int64
	Tier string
	In   string
	In2  string
	Reg  string
	Out  string
	N    int
	Part int
	Of   int
	Rest []string
	rng  *rand.Rand
}

func (a *Args) Rand() *rand.Rand {
	if a.rng == nil {
		a.rng = rand.New(rand.NewSource(a.Seed))
	}
	return a.rng
}

var drivers = map[string]driver{}

func fatal(f string, v ...any) {
	fmt.Fprintf(os.Stderr, "harness: "+f+"\n", v...)
	os.Exit(2)
}

func main() {
	if len(os.Args) < 2 {
		names := []string{}
		for n := range drivers {
			names = append(names, n)
		}
		sort.Strings(names)
		fatal("usage: harness <driver> [flags]; drivers: %v", names)
	}
	d, ok := drivers[os.Args[1]]
	if !ok {
		fatal("unknown driver %q", os.Args[1])
	}
	fs := flag.NewFlagSet(os.Args[1], flag.ExitOnError)
	a := &Args{}
	fs.Int64Var(&a.Seed, "seed", 1, "seed for every random choice")
	fs.StringVar(&a.Tier, "tier", "quick", "quick|thorough")
	fs.StringVar(&a.In, "in", "", "input file (generated cases)")
	fs.StringVar(&a.In2, "in2", "", "second input file")
	fs.StringVar(&a.Reg, "reg", "", "extension profiles to register (X1,X2,X3)")
	fs.StringVar(&a.Out, "out", "", "output trace file (NDJSON)")
	fs.IntVar(&a.N, "n", 0, "size parameter")
	fs.IntVar(&chunkFlag, "chunk", 0, "events per trace file")
	fs.IntVar(&a.Part, "part", 0, "partition index")
	fs.IntVar(&a.Of, "of", 1, "number of partitions")
	fs.Parse(os.Args[2:])
	a.Rest = fs.Args()
	d(a)
}

func readFile(p string) ([]byte, error) { return os.ReadFile(p) }

func loadJSON(path string, v any) {
	b, err := os.ReadFile(path)
	if err != nil {
		fatal("read %s: %v", path, err)
	}
	if err := json.Unmarshal(b, v); err != nil {
		fatal("parse %s: %v", path, err)
	}
}

func hexs(b []byte) string { return hex.EncodeToString(b) }

func (a *Args) hasRest(w string) bool {
	for _, r := range a.Rest {
		if r == w {
			return true
		}
	}
	return false
}

// safely runs f and reports whether it panicked (a library panic is an observation, not a crash
// of the harness).
func safely(f func()) (panicked bool) {
	defer func() {
		if p := recover(); p != nil {
			panicked = true
		}
	}()
	f()
	return false
}
