package main

// Evidence-family plumbing: real keys for every algorithm go-cose signs with, honest and
// fault-injecting cose.Signer implementations, the table of honest signatures (so that a
// signature's bytes can be projected to the spec's symbolic Sig(k, a, p)), assembling
// COSE_Sign1 tokens from parts with the independent encoder, and Abs for Evidence objects.

import (
	"crypto"
	"crypto/ecdsa"
	"crypto/ed25519"
	"crypto/elliptic"
	"crypto/rand"
	"crypto/rsa"
	"errors"
	"io"

	"verif/harness/cborx"

	cose "github.com/veraison/go-cose"
	"github.com/veraison/psatoken"
)

var algNames = []string{"ES256", "ES384", "ES512", "EdDSA", "PS256", "PS384", "PS512"}
var algOf = map[string]cose.Algorithm{"ES256": cose.AlgorithmES256, "ES384": cose.AlgorithmES384, "ES512": cose.AlgorithmES512,
	"EdDSA": cose.AlgorithmEdDSA, "PS256": cose.AlgorithmPS256, "PS384": cose.AlgorithmPS384, "PS512": cose.AlgorithmPS512}

const unsupportedAlg = cose.Algorithm(-999)

func algName(a cose.Algorithm) string {
	for n, v := range algOf {
		if v == a {
			return n
		}
	}
	return "unsupported"
}

type keyPair struct {
	priv crypto.Signer
	pub  crypto.PublicKey
}

// keyring: algorithm name -> key id ("k1", "k2") -> key pair (fresh keys every run)
type keyring map[string]map[string]keyPair

var sharedRSA = map[string]*rsa.PrivateKey{}

func newKeyring(algs []string) keyring {
	kr := keyring{}
	for _, a := range algs {
		kr[a] = map[string]keyPair{}
		for _, k := range []string{"k1", "k2"} {
			var priv crypto.Signer
			var err error
			switch a {
			case "ES256":
				priv, err = ecdsa.GenerateKey(elliptic.P256(), rand.Reader)
			case "ES384":
				priv, err = ecdsa.GenerateKey(elliptic.P384(), rand.Reader)
			case "ES512":
				priv, err = ecdsa.GenerateKey(elliptic.P521(), rand.Reader)
			case "EdDSA":
				_, p, e := ed25519.GenerateKey(rand.Reader)
				priv, err = p, e
			default: // RSA-PSS: one 2048-bit key per key id shared by the three hash sizes
				if sharedRSA[k] == nil {
					sharedRSA[k], err = rsa.GenerateKey(rand.Reader, 2048)
				}
				priv = sharedRSA[k]
			}
			if err != nil {
				fatal("key generation: %v", err)
			}
			kr[a][k] = keyPair{priv: priv, pub: priv.Public()}
		}
	}
	return kr
}

type sigID struct {
	K string `json:"k"`
	A string `json:"a"`
	P string `json:"p"`
}

var (
	noSig   = sigID{"none", "none", "nil"}
	junkSig = sigID{"junk", "none", "nil"}
)

// evWorld holds what the harness knows: the claims-sets by id, their encodings, the honest
// signatures produced so far.
type evWorld struct {
	kr      keyring
	claims  map[string]psatoken.IClaims // cA, cB, cC, cBad
	enc     map[string][]byte           // id -> CBOR encoding
	sigs    map[string]sigID            // signature bytes -> symbolic signature
	goodSig map[sigID][]byte            // a pre-made honest signature for every (k, a, p)
	curP    string                      // payload id being signed (set before a Sign call)
}

func (w *evWorld) payloadID(b []byte) string {
	if b == nil {
		return "nil"
	}
	for id, e := range w.enc {
		if string(e) == string(b) {
			return id
		}
	}
	return "garbage"
}

func (w *evWorld) claimsID(c psatoken.IClaims) string {
	if c == nil {
		return "nil"
	}
	for id, x := range w.claims {
		if x == c {
			return id
		}
	}
	b, err := psatoken.EncodeClaimsToCBOR(c)
	if err != nil {
		return "unencodable"
	}
	if id := w.payloadID(b); id != "garbage" {
		return id
	}
	return "other"
}

func (w *evWorld) sigOf(b []byte) sigID {
	if len(b) == 0 {
		return noSig
	}
	if s, ok := w.sigs[string(b)]; ok {
		return s
	}
	return junkSig
}

// ---------- signers ----------

type faultSigner struct {
	w    *evWorld
	kind string // good err empty junk
	k    string
	a    string
	real cose.Signer
}

func (s *faultSigner) Algorithm() cose.Algorithm {
	if s.a == "unsupported" {
		return unsupportedAlg
	}
	return algOf[s.a]
}

func (s *faultSigner) Sign(r io.Reader, content []byte) ([]byte, error) {
	switch s.kind {
	case "err":
		return nil, errors.New("injected signer failure")
	case "empty":
		return []byte{}, nil
	case "junk":
		b := make([]byte, 64)
		rand.Read(b)
		b[0] |= 1
		return b, nil
	}
	sig, err := s.real.Sign(r, content)
	if err == nil {
		s.w.sigs[string(sig)] = sigID{s.k, s.a, s.w.curP}
	}
	return sig, err
}

func (w *evWorld) signer(kind, k, a string) cose.Signer {
	fs := &faultSigner{w: w, kind: kind, k: k, a: a}
	if kind == "good" {
		rs, err := cose.NewSigner(algOf[a], w.kr[a][k].priv)
		if err != nil {
			fatal("NewSigner(%s): %v", a, err)
		}
		fs.real = rs
	}
	return fs
}

func protectedBytes(a string) []byte {
	e := &cborx.Enc{}
	switch a {
	case "none":
		return []byte{} // zero-length protected header
	case "unsupported":
		e.Map(1).Int(1).Int(int64(unsupportedAlg))
	default:
		e.Map(1).Int(1).Int(int64(algOf[a]))
	}
	return e.Bytes()
}

// token assembles tag-18 [protected, {}, payload, signature] with the independent encoder.
func assembleSign1(protected []byte, payload []byte, nilPayload bool, sig []byte) []byte {
	e := &cborx.Enc{}
	e.Tag(18).Arr(4).Bstr(protected).Map(0)
	if nilPayload {
		e.Null()
	} else {
		e.Bstr(payload)
	}
	e.Bstr(sig)
	return e.Bytes()
}

func newEvWorld(algs []string, cc Conc, d *domains) *evWorld {
	w := &evWorld{kr: newKeyring(algs), claims: map[string]psatoken.IClaims{}, enc: map[string][]byte{},
		sigs: map[string]sigID{}, goodSig: map[sigID][]byte{}}
	w.claims["cA"] = cc.BuildLit(d.base("P2", "full"))
	w.claims["cB"] = cc.BuildLit(d.base("P1", "minimal"))
	w.claims["cC"] = cc.BuildLit(d.base("P2", "minimal")) // same profile as cA, fewer optional claims
	bad := d.base("P2", "full")
	bad.Vals["implId"] = hbytes(31, 2)
	w.claims["cBad"] = cc.BuildLit(bad)
	for id, c := range w.claims {
		b, err := psatoken.EncodeClaimsToCBOR(c)
		if err != nil {
			fatal("encoding %s: %v", id, err)
		}
		w.enc[id] = append([]byte{}, b...) // own copy: the harness must not depend on the library not reusing the slice
	}
	// the strongest adversary: an honest signature for every (key, algorithm, claims-set), and for bytes that are
	// no claims map at all (signed by the same keys for some other purpose)
	w.enc["garbage"] = garbagePayload
	defer delete(w.enc, "garbage")
	for _, a := range algs {
		for _, k := range []string{"k1", "k2"} {
			for id := range w.enc {
				rs, err := cose.NewSigner(algOf[a], w.kr[a][k].priv)
				if err != nil {
					fatal("NewSigner: %v", err)
				}
				m := cose.NewSign1Message()
				m.Payload = w.enc[id]
				m.Headers.Protected.SetAlgorithm(algOf[a])
				if err := m.Sign(rand.Reader, []byte(""), rs); err != nil {
					fatal("pre-signing: %v", err)
				}
				s := sigID{k, a, id}
				w.goodSig[s] = m.Signature
				w.sigs[string(m.Signature)] = s
			}
		}
	}
	return w
}

var garbagePayload = []byte{0x01, 0x02, 0x03}

// ---------- abstraction ----------

type evMsg struct {
	St      string `json:"st"`
	Payload string `json:"payload"`
	Alg     string `json:"alg"`
	Sig     sigID  `json:"sig"`
}

var noMsg = evMsg{St: "none", Payload: "nil", Alg: "none", Sig: noSig}

type evState struct {
	Claims   string `json:"claims"`
	Msg      evMsg  `json:"msg"`
	Replaced bool   `json:"replaced"`
}

func (w *evWorld) absMsg(m *cose.Sign1Message) evMsg {
	if m == nil {
		return noMsg
	}
	out := evMsg{St: "some", Payload: w.payloadID(m.Payload), Alg: "none", Sig: w.sigOf(m.Signature)}
	if a, err := m.Headers.Protected.Algorithm(); err == nil {
		out.Alg = algName(a)
	}
	return out
}

func (w *evWorld) absEvidence(e *psatoken.Evidence, replaced bool) evState {
	return evState{Claims: w.claimsID(e.Claims), Msg: w.absMsg(e.VerifMessage()), Replaced: replaced}
}

// tokInfo is the projection of token bytes by the independent reader.
type tokInfo struct {
	WF      bool   `json:"wf"`      // tag 18, array of 4: bstr, map, bstr-or-null, bstr; nothing after it
	Payload string `json:"payload"` // claims id | garbage | nil
	Alg     string `json:"alg"`
	Sig     sigID  `json:"sig"`
	// format details (C03)
	ProtOnlyAlg bool   `json:"protOnlyAlg"` // protected header is exactly {1: alg}
	UnprotEmpty bool   `json:"unprotEmpty"`
	PayloadHex  string `json:"payloadH"`
	Tag         int64  `json:"tag"`
	ArrLen      int    `json:"arrLen"`
	Trail       int    `json:"trail"`
}

func (w *evWorld) absToken(b []byte) tokInfo {
	t := tokInfo{Payload: "nil", Alg: "none", Sig: noSig, Tag: -1}
	n, rest, err := cborx.ParseFirst(b)
	if err != nil {
		return t
	}
	t.Trail = rest
	if n.Major != 6 {
		return t
	}
	t.Tag = int64(n.Arg)
	if n.Arg > 1<<30 { // beyond TLC's integers: any value that is not 18
		t.Tag = 1 << 30
	}
	arr := n.Items[0]
	if arr.Major != 4 || arr.Indef {
		return t
	}
	t.ArrLen = len(arr.Items)
	if t.ArrLen != 4 {
		return t
	}
	prot, unprot, pay, sig := arr.Items[0], arr.Items[1], arr.Items[2], arr.Items[3]
	if prot.Major != 2 || unprot.Major != 5 || !(pay.Major == 2 || (pay.Major == 7 && pay.AI == 22)) || sig.Major != 2 {
		return t
	}
	t.WF = n.Arg == 18 && rest == 0
	t.UnprotEmpty = len(unprot.Items) == 0
	if pay.Major == 2 {
		t.Payload = w.payloadID(pay.Bytes)
		t.PayloadHex = hx(pay.Bytes)
	}
	t.Sig = w.sigOf(sig.Bytes)
	if len(prot.Bytes) > 0 {
		if pm, perr := cborx.Parse(prot.Bytes); perr == nil && pm.Major == 5 {
			for i := 0; i+1 < len(pm.Items); i += 2 {
				if k, ok := pm.Items[i].IntVal(); ok && k == 1 {
					if v, ok2 := pm.Items[i+1].IntVal(); ok2 {
						t.Alg = algName(cose.Algorithm(v))
					}
				}
			}
			t.ProtOnlyAlg = len(pm.Items) == 2 && t.Alg != "none" && !pm.Indef
		} else {
			t.WF = false
		}
	}
	return t
}
