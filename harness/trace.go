package main

import (
	"bufio"
	"encoding/json"
	"fmt"
	"hash/fnv"
	"os"
	"regexp"
)

// Tracer writes one JSON object per line (NDJSON): the events TLC judges. Large traces
// are split into chunks (<out>.<k>.ndjson) at behaviour boundaries so that several TLC
// judges can run in parallel. It also counts the distinct non-trivial abstract cases.
type Tracer struct {
	base    string
	chunk   int
	k       int
	f       *os.File
	w       *bufio.Writer
	n       int
	inChunk int
	behav   int
	seen    map[uint64]struct{}
	samples []json.RawMessage
	files   []string
	nontriv int
}

const defaultChunk = 200000

// chunkFlag (-chunk) overrides the number of events per trace file
var chunkFlag int

func NewTracer(path string) *Tracer {
	if path == "" {
		fatal("missing -out")
	}
	t := &Tracer{base: path, chunk: defaultChunk, seen: map[uint64]struct{}{}}
	if chunkFlag > 0 {
		t.chunk = chunkFlag
	}
	t.open()
	return t
}

func (t *Tracer) open() {
	name := fmt.Sprintf("%s.%d.ndjson", t.base, t.k)
	f, err := os.Create(name)
	if err != nil {
		fatal("create trace: %v", err)
	}
	t.f, t.w = f, bufio.NewWriterSize(f, 1<<20)
	t.files = append(t.files, name)
	t.inChunk = 0
}

var hexField = regexp.MustCompile(`"h":"#?[0-9a-f]*"|"(b|i|g|batch|hex|payloadH)":("[0-9a-f#]*"|[0-9]+),?`)

// Emit writes an event. newBehaviour marks the first event of a behaviour (a chunk may
// only start there). nontrivial says whether the case counts for distinct_nontrivial;
// distinctness is judged on the abstract content (concrete hex fields removed).
func (t *Tracer) Emit(ev any, newBehaviour bool, nontrivial bool) {
	b, err := json.Marshal(ev)
	if err != nil {
		fatal("marshal event: %v", err)
	}
	if newBehaviour {
		t.behav++
		if t.inChunk >= t.chunk {
			t.w.Flush()
			t.f.Close()
			t.k++
			t.open()
		}
	}
	t.w.Write(b)
	t.w.WriteByte('\n')
	if markerPath != "" && t.n%64 == 0 {
		t.w.Flush()
	}
	t.n++
	t.inChunk++
	if nontrivial {
		h := fnv.New64a()
		h.Write(hexField.ReplaceAll(b, nil))
		k := h.Sum64()
		if _, ok := t.seen[k]; !ok {
			t.seen[k] = struct{}{}
			t.nontriv++
			// keep a few spread-out samples
			if len(t.samples) < 3 || (t.nontriv%50021 == 0 && len(t.samples) < 8) {
				if len(b) < 30000 {
					t.samples = append(t.samples, json.RawMessage(append([]byte{}, b...)))
				}
			}
		}
	}
}

// Close flushes the trace and prints the statistics record the orchestrator reads.
func (t *Tracer) Close(extra map[string]any) {
	guardedDone()
	t.w.Flush()
	t.f.Close()
	st := map[string]any{
		"events": t.n, "behaviours": t.behav, "distinct_nontrivial": t.nontriv,
		"files": t.files, "samples": t.samples,
	}
	for k, v := range extra {
		st[k] = v
	}
	b, _ := json.Marshal(st)
	fmt.Printf("STATS %s\n", b)
}
