package main

// C20: only a well-formed tagged COSE_Sign1 carrying a claims map is evidence. Envelopes are
// assembled by the independent encoder over a grid of tags, array lengths and element types.

import (
	"os"
	"path/filepath"

	"verif/harness/cborx"

	"github.com/veraison/psatoken"
)

type envEv struct {
	B          int     `json:"b"`
	I          int     `json:"i"`
	Op         string  `json:"op"`
	Kind       string  `json:"kind"`
	TI         tokInfo `json:"ti"`
	SigLen     int     `json:"sigLen"`
	PayloadMap bool    `json:"payloadMap"` // the payload bytes are a single CBOR map
	PayloadTag bool    `json:"payloadTag"` // the payload bytes are a single tagged item (left open: no verdict)
	MinimalTag bool    `json:"minimalTag"`
	Dec1       bool    `json:"dec1"` // DecodeEvidenceFromCOSE succeeded
	Dec2       bool    `json:"dec2"` // Evidence.UnmarshalCOSE succeeded
	// UnmarshalCOSE on ONE Evidence value reused for the whole run, the input lying in ONE caller buffer reused for the
	// whole run, right after that Evidence decoded the canonical envelope from the very same buffer
	Dec3   bool `json:"dec3"`
	Claims bool `json:"claims"` // claims attached after success
	Pan    bool `json:"panicked"`
	// after the call: the canonical envelope still decodes and one whose payload holds CBOR null is still refused
	// (what is evidence does not depend on what was presented before)
	ProbeOK bool `json:"probeOK"`
}

// element kinds for the grid
func encElem(e *cborx.Enc, kind string, w *evWorld, cc Conc) {
	switch kind {
	case "bstr-prot":
		e.Bstr(protectedBytes("ES256"))
	case "bstr-empty":
		e.Bstr([]byte{})
	case "bstr-payload":
		e.Bstr(w.enc["cA"])
	case "bstr-sig":
		e.Bstr(w.goodSig[sigID{"k1", "ES256", "cA"}])
	case "bstr-junk":
		e.Bstr(cc.bytes(8, 2))
	case "map-empty":
		e.Map(0)
	case "map-one":
		e.Map(1).Int(4).Bstr([]byte("kid"))
	case "null":
		e.Null()
	case "undef":
		e.Undef()
	case "uint":
		e.Uint(7)
	case "nint":
		e.Int(-1)
	case "tstr":
		e.Tstr("x")
	case "arr-empty":
		e.Arr(0)
	case "arr-one":
		e.Arr(1).Uint(1)
	case "bool":
		e.Bool(true)
	case "float":
		e.Float64(1.5)
	case "tagged-bstr":
		e.Tag(24).Bstr(w.enc["cA"])
	case "wrapped": // payload wrapped once more in a byte string
		in := &cborx.Enc{}
		in.Bstr(w.enc["cA"])
		e.Bstr(in.Bytes())
	case "wrapped2":
		in := &cborx.Enc{}
		in.Bstr(w.enc["cA"])
		in2 := &cborx.Enc{}
		in2.Bstr(in.Bytes())
		e.Bstr(in2.Bytes())
	case "payload-array":
		in := &cborx.Enc{}
		in.Arr(1).Uint(1)
		e.Bstr(in.Bytes())
	case "payload-int":
		e.Bstr([]byte{0x01})
	case "payload-emptymap":
		e.Bstr([]byte{0xa0})
	case "payload-two-maps":
		e.Bstr(append(append([]byte{}, w.enc["cA"]...), w.enc["cA"]...))
	case "payload-p2-boolkey": // a map naming a registered profile under key 265, with a key that is neither integer nor text
		in := &cborx.Enc{}
		in.Map(2).Int(265).Tstr(psatoken.Profile2Name).Bool(true).Uint(0)
		e.Bstr(in.Bytes())
	case "payload-p2-bstrkey":
		in := &cborx.Enc{}
		in.Map(2).Bstr([]byte{1}).Uint(0).Int(265).Tstr(psatoken.Profile2Name)
		e.Bstr(in.Bytes())
	case "payload-unknown-profile":
		in := &cborx.Enc{}
		in.Map(1).Int(265).Tstr("http://unknown.example/profile")
		e.Bstr(in.Bytes())
	case "payload-null": // a byte string whose content is the single item null
		e.Bstr([]byte{0xf6})
	case "payload-undef":
		e.Bstr([]byte{0xf7})
	case "payload-false":
		e.Bstr([]byte{0xf4})
	case "payload-tstr":
		e.Bstr([]byte{0x61, 0x78})
	case "payload-bstr":
		e.Bstr([]byte{0x41, 0x78})
	case "payload-map-junk": // the claims map followed by one more byte
		e.Bstr(append(append([]byte{}, w.enc["cA"]...), 0x00))
	case "payload-map-null":
		e.Bstr(append(append([]byte{}, w.enc["cA"]...), 0xf6))
	case "payload-map-break":
		e.Bstr(append(append([]byte{}, w.enc["cA"]...), 0xff))
	case "payload-map-trunc": // followed by a truncated head
		e.Bstr(append(append([]byte{}, w.enc["cA"]...), 0x59, 0x01))
	case "payload-null-map":
		e.Bstr(append([]byte{0xf6}, w.enc["cA"]...))
	case "payload-tagged-map": // no verdict: a tag before the map is left open
		e.Bstr(append([]byte{0xd9, 0xd9, 0xf7}, w.enc["cA"]...))
	case "payload-tagged-null":
		e.Bstr([]byte{0xd9, 0xd9, 0xf7, 0xf6})
	case "payload-truncated":
		e.Bstr(w.enc["cA"][:len(w.enc["cA"])-1])
	case "indef-bstr":
		e.IndefBstr().Bstr(w.enc["cA"]).Break()
	default:
		panic("encElem " + kind)
	}
}

var elemKinds = []string{"bstr-prot", "bstr-empty", "bstr-payload", "bstr-sig", "bstr-junk", "map-empty", "map-one", "null", "undef", "uint", "nint",
	"tstr", "arr-empty", "arr-one", "bool", "float", "tagged-bstr", "wrapped", "wrapped2", "payload-array", "payload-int", "payload-emptymap",
	"payload-two-maps", "indef-bstr", "payload-null", "payload-undef", "payload-false", "payload-tstr", "payload-bstr", "payload-map-junk",
	"payload-map-null", "payload-map-break", "payload-map-trunc", "payload-null-map", "payload-tagged-map", "payload-tagged-null", "payload-truncated",
	"payload-p2-boolkey", "payload-p2-bstrkey", "payload-unknown-profile"}

func init() {
	drivers["ev-envelope"] = func(a *Args) {
		d := loadDomains(a.In)
		cc := Conc{r: a.Rand()}
		w := newEvWorld([]string{"ES256"}, cc, d)
		t := NewTracer(a.Out)
		b := 0
		var probeGood, probeNull []byte
		reusedEv, reusedBuf := &psatoken.Evidence{}, make([]byte, 1<<16)
		present := func(kind string, tok []byte) {
			ev := envEv{B: b, Op: "Envelope", Kind: kind, TI: w.absToken(tok), MinimalTag: true}
			if n, _, err := cborx.ParseFirst(tok); err == nil && n.Major == 6 {
				ev.MinimalTag = n.Minimal
				if arr := n.Items[0]; arr.Major == 4 && len(arr.Items) == 4 && arr.Items[3].Major == 2 {
					ev.SigLen = len(arr.Items[3].Bytes)
				}
			}
			if pb, ok := payloadBytes(tok); ok {
				if pn, perr := cborx.Parse(pb); perr == nil && pn.Major == 5 {
					ev.PayloadMap = true
				} else if perr == nil && pn.Major == 6 {
					ev.PayloadTag = true
				}
			}
			ev.Pan = safely(func() {
				e1, err := psatoken.DecodeEvidenceFromCOSE(append([]byte{}, tok...))
				ev.Dec1 = err == nil && e1 != nil
				e2 := &psatoken.Evidence{}
				ev.Dec2 = e2.UnmarshalCOSE(append([]byte{}, tok...)) == nil
				ev.Claims = ev.Dec1 && e1.Claims != nil
			})
			ev.Dec3 = ev.Dec2
			if probeGood != nil && len(tok) <= len(reusedBuf) {
				safely(func() {
					ev.Dec3 = false
					copy(reusedBuf, probeGood)
					if err := reusedEv.UnmarshalCOSE(reusedBuf[:len(probeGood)]); err != nil {
						fatal("the reused Evidence refuses the canonical envelope: %v", err)
					}
					copy(reusedBuf, tok) // the caller recycles its buffer
					ev.Dec3 = reusedEv.UnmarshalCOSE(reusedBuf[:len(tok)]) == nil
				})
			}
			ev.ProbeOK = true
			if probeGood != nil {
				safely(func() {
					_, e2 := psatoken.DecodeEvidenceFromCOSE(append([]byte{}, probeNull...)) // first: a successful decode may reset what a failed one left
					_, e1 := psatoken.DecodeEvidenceFromCOSE(append([]byte{}, probeGood...))
					ev.ProbeOK = e1 == nil && e2 != nil
				})
			}
			t.Emit(ev, true, true)
			b++
		}
		std := []string{"bstr-prot", "map-empty", "bstr-payload", "bstr-sig"}
		build := func(tag int, tagWidth int, elems []string, trailing []byte) []byte {
			e := &cborx.Enc{}
			if tag >= 0 {
				if tagWidth < 0 {
					e.Tag(uint64(tag))
				} else {
					e.HeadW(6, uint64(tag), tagWidth)
				}
			}
			e.Arr(len(elems))
			for _, k := range elems {
				encElem(e, k, w, cc)
			}
			e.Raw(trailing)
			return e.Bytes()
		}
		probeGood = build(18, -1, std, nil)
		probeNull = build(18, -1, []string{"bstr-prot", "map-empty", "payload-null", "bstr-sig"}, nil)
		present("canonical", build(18, -1, std, nil))
		// in-place edits of the canonical envelope (same length): the tag, the array head and every element head become
		// something else - Mac0 / Sign tags, other array lengths, other major types, null, an empty signature ...
		{
			heads := map[int]bool{}
			if n, _, err := cborx.ParseFirst(probeGood); err == nil && n.Major == 6 && len(n.Items) == 1 {
				heads[0] = true
				arr := n.Items[0]
				heads[arr.Start] = true
				for _, it := range arr.Items {
					heads[it.Start] = true
				}
			}
			for i := 0; i < len(probeGood); i++ {
				if !heads[i] && i > 12 && i < len(probeGood)-2 {
					continue
				}
				for _, v := range []byte{0x00, 0x40, 0x58, 0x60, 0x80, 0x83, 0x84, 0x85, 0xa0, 0xd1, 0xd2, 0xd8, 0xf6, 0xf7, probeGood[i] ^ 0x01, probeGood[i] ^ 0x20, probeGood[i] ^ 0xe0} {
					if v == probeGood[i] {
						continue
					}
					x := append([]byte{}, probeGood...)
					x[i] = v
					present("inplace", x)
				}
			}
		}
		// every tag 0..30 and none, also in non-minimal encodings
		for tag := -1; tag <= 30; tag++ {
			present("tag", build(tag, -1, std, nil))
			if tag >= 0 {
				for _, wd := range []int{1, 2, 4, 8} {
					present("tag-nonminimal", build(tag, wd, std, nil))
				}
			}
		}
		for _, tag := range []int{61, 96, 97, 98, 55799, 17, 16} {
			present("tag", build(tag, -1, std, nil))
		}
		// tag numbers that agree with 18 in their low byte(s), in every width that holds them
		for _, tag := range []uint64{0x112, 0x212, 0x1012, 0xff12, 0x10012, 0x120012, 0xaabbcc12, 0x100000012, 0x1200000000, 0xffffffffffffff12, 0x1200, 0x120000} {
			for _, wd := range []int{2, 4, 8} {
				if wd == 2 && tag > 0xffff || wd == 4 && tag > 0xffffffff {
					continue
				}
				e := &cborx.Enc{}
				e.HeadW(6, tag, wd)
				e.Raw(build(-1, -1, std, nil))
				present("tag-wide", e.Bytes())
			}
		}
		{ // doubly tagged
			e := &cborx.Enc{}
			e.Tag(18).Raw(build(18, -1, std, nil))
			present("tag-double", e.Bytes())
			e2 := &cborx.Enc{}
			e2.Tag(55799).Raw(build(18, -1, std, nil))
			present("tag-double", e2.Bytes())
		}
		// array lengths 0..6
		for n := 0; n <= 6; n++ {
			el := []string{}
			for i := 0; i < n; i++ {
				if i < 4 {
					el = append(el, std[i])
				} else {
					el = append(el, "bstr-junk")
				}
			}
			present("arrlen", build(18, -1, el, nil))
		}
		// each of the four elements replaced by every kind; and all pairs of replacements in the thorough tier
		for pos := 0; pos < 4; pos++ {
			for _, k := range elemKinds {
				el := append([]string{}, std...)
				el[pos] = k
				present("elem", build(18, -1, el, nil))
				present("elem-untagged", build(-1, -1, el, nil))
			}
		}
		for p1 := 0; p1 < 4; p1++ {
			for p2 := p1 + 1; p2 < 4; p2++ {
				for _, k1 := range elemKinds {
					for _, k2 := range elemKinds {
						if a.Tier != "thorough" && cc.r.Intn(6) != 0 {
							continue
						}
						el := append([]string{}, std...)
						el[p1], el[p2] = k1, k2
						present("elem2", build(18, -1, el, nil))
					}
				}
			}
		}
		// trailing bytes
		for _, tr := range [][]byte{{0x00}, {0xf6}, {0xff}, {0xd2, 0x84}, build(18, -1, std, nil), {0x40, 0x40}} {
			present("trailing", build(18, -1, std, tr))
		}
		// indefinite-length array, map instead of array
		{
			e := &cborx.Enc{}
			e.Tag(18).IndefArr()
			for _, k := range std {
				encElem(e, k, w, cc)
			}
			e.Break()
			present("indef-array", e.Bytes())
			e2 := &cborx.Enc{}
			e2.Tag(18).Map(2)
			for _, k := range std {
				encElem(e2, k, w, cc)
			}
			present("map-envelope", e2.Bytes())
		}
		// the TF-M vectors shipped with the repository (COSE_Sign1 and COSE_Mac0)
		files, _ := filepath.Glob(filepath.Join(a.In2, "*.bin"))
		for _, f := range files {
			if bts, err := os.ReadFile(f); err == nil {
				present("vector:"+filepath.Base(f), bts)
			}
		}
		t.Close(nil)
	}
}
