package main

// C08: the seven validating entry points against Validate() and their non-validating
// siblings, on the valid and invalid claims-sets of the C01 enumeration.

import (
	"bytes"
	"strings"

	"github.com/veraison/psatoken"
)

type gateRes struct {
	OK     bool `json:"ok"`
	None   bool `json:"none"`   // nothing was emitted / attached
	Same   bool `json:"same"`   // on success: identical to the non-validating sibling's result
	SibOK  bool `json:"sibOK"`  // the sibling succeeded
	SibObj Obj  `json:"sibObj"` // decode gates: what the sibling decoded
	Obj    Obj  `json:"obj"`    // decode gates: what the gate returned
}

type gatesEv struct {
	B     int                `json:"b"`
	I     int                `json:"i"`
	Op    string             `json:"op"`
	Src   string             `json:"src"`
	Pre   Obj                `json:"pre"`
	Post  Obj                `json:"post"`
	VRet  Ret                `json:"vret"`
	Gates map[string]gateRes `json:"gates"`
	Ts    tsArg              `json:"ts"` // extension profile X2: its own claim, which its own Validate() wants non-negative
	Pan   bool               `json:"panicked"`
}

type tsArg struct {
	Present bool `json:"present"`
	V       int  `json:"v"`
}

func init() {
	drivers["gates"] = func(a *Args) {
		d := loadDomains(a.In)
		cc := Conc{r: a.Rand()}
		w := &evWorld{kr: newKeyring([]string{"ES256"}), sigs: map[string]sigID{}, enc: map[string][]byte{}, claims: map[string]psatoken.IClaims{}}
		t := NewTracer(a.Out)
		b := 0
		blankObj := func(c psatoken.IClaims) Obj { return AbsClaims(c) }
		var runC func(src string, c psatoken.IClaims)
		run := func(src string, s CSpec) { runC(src, cc.BuildLit(s)) }
		runC = func(src string, c psatoken.IClaims) {
			ev := gatesEv{B: b, Op: "Gates", Src: src, Pre: AbsClaims(c), Gates: map[string]gateRes{}}
			if x, ok := c.(*X2Claims); ok && x.Timestamp != nil {
				ev.Ts = tsArg{Present: true, V: int(*x.Timestamp)}
			}
			ev.VRet = safeValidate(c)
			pre := ev.Pre
			ev.Pan = safely(func() {
				// attach
				{
					e := &psatoken.Evidence{}
					err := e.SetClaims(c)
					ev.Gates["SetClaims"] = gateRes{OK: err == nil, None: e.Claims == nil, Same: e.Claims == c, SibOK: true, SibObj: pre, Obj: pre}
				}
				// validate-and-encode
				{
					sib, serr := psatoken.EncodeClaimsToCBOR(c)
					out, err := psatoken.ValidateAndEncodeClaimsToCBOR(c)
					ev.Gates["EncodeCBOR"] = gateRes{OK: err == nil, None: out == nil, Same: serr == nil && bytes.Equal(out, sib), SibOK: serr == nil, SibObj: pre, Obj: pre}
					sibj, sjerr := psatoken.EncodeClaimsToJSON(c)
					outj, jerr := psatoken.ValidateAndEncodeClaimsToJSON(c)
					ev.Gates["EncodeJSON"] = gateRes{OK: jerr == nil, None: outj == nil, Same: sjerr == nil && bytes.Equal(outj, sibj), SibOK: sjerr == nil, SibObj: pre, Obj: pre}
					// decode-and-validate, fed with the sibling's bytes
					if serr == nil {
						sc, sderr := psatoken.DecodeClaimsFromCBOR(append([]byte{}, sib...))
						gc, gerr := psatoken.DecodeAndValidateClaimsFromCBOR(append([]byte{}, sib...))
						g := gateRes{OK: gerr == nil, None: gc == nil, SibOK: sderr == nil, SibObj: pre, Obj: pre}
						if sderr == nil {
							g.SibObj = blankObj(sc)
						}
						if gerr == nil {
							g.Obj = blankObj(gc)
							g.Same = sderr == nil && jsonEq(allGetters(gc), allGetters(sc))
						}
						ev.Gates["DecodeCBOR"] = g
					}
					if sjerr == nil {
						sc, sderr := psatoken.DecodeClaimsFromJSON(append([]byte{}, sibj...))
						gc, gerr := psatoken.DecodeAndValidateClaimsFromJSON(append([]byte{}, sibj...))
						g := gateRes{OK: gerr == nil, None: gc == nil, SibOK: sderr == nil, SibObj: pre, Obj: pre}
						if sderr == nil {
							g.SibObj = blankObj(sc)
						}
						if gerr == nil {
							g.Obj = blankObj(gc)
							g.Same = sderr == nil && jsonEq(allGetters(gc), allGetters(sc))
						}
						ev.Gates["DecodeJSON"] = g
					}
				}
				// validate-and-sign vs sign
				{
					e1, e2 := &psatoken.Evidence{Claims: c}, &psatoken.Evidence{Claims: c}
					sibTok, serr := e1.Sign(w.signer("good", "k1", "ES256"))
					tok, err := e2.ValidateAndSign(w.signer("good", "k1", "ES256"))
					g := gateRes{OK: err == nil, None: tok == nil, SibOK: serr == nil, SibObj: pre, Obj: pre}
					if err == nil && serr == nil {
						p1, ok1 := payloadBytes(tok)
						p2, ok2 := payloadBytes(sibTok)
						g.Same = ok1 && ok2 && bytes.Equal(p1, p2) && e2.Verify(w.kr["ES256"]["k1"].pub) == nil
					}
					ev.Gates["Sign"] = g
					// decode-and-validate evidence, fed with the unvalidated token
					if serr == nil {
						se, sderr := psatoken.DecodeEvidenceFromCOSE(append([]byte{}, sibTok...))
						ge, gerr := psatoken.DecodeAndValidateEvidenceFromCOSE(append([]byte{}, sibTok...))
						g2 := gateRes{OK: gerr == nil, None: ge == nil, SibOK: sderr == nil, SibObj: pre, Obj: pre}
						if sderr == nil {
							g2.SibObj = blankObj(se.Claims)
						}
						if gerr == nil {
							g2.Obj = blankObj(ge.Claims)
							g2.Same = sderr == nil && jsonEq(allGetters(ge.Claims), allGetters(se.Claims)) && ge.Verify(w.kr["ES256"]["k1"].pub) == nil
						}
						ev.Gates["DecodeCOSE"] = g2
					}
				}
			})
			ev.Post = AbsClaims(c)
			t.Emit(ev, true, !ev.VRet.OK)
			b++
		}
		for _, p := range []string{"P1", "P2"} {
			bases := map[string]CSpec{"full": d.base(p, "full"), "minimal": d.base(p, "minimal"), "nosw": d.base(p, "nosw")}
			for kind, bs := range bases {
				run("base:"+kind, bs)
				for _, c := range d.Order {
					for _, al := range d.alts(p, c) {
						s := bs.clone()
						s.apply(al)
						run("single:"+kind, s)
					}
				}
			}
			// claims-sets whose only defect is not on the wire: the instance validates against another canonical name
			// (a derived profile embedding the built-in type, a hand-made struct literal) while the profile claim it carries
			// is a registered one or absent - invalid in memory, conformant once encoded and decoded again
			for _, canon := range []string{"", "http://example.com/derived/" + p, map[string]string{"P1": canonOf["P2"], "P2": canonOf["P1"]}[p]} {
				for _, kind := range []string{"full", "minimal", "nosw"} {
					for _, prof := range []string{"keep", "absent", "canon"} {
						s := bases[kind].clone()
						s.Canon = canon
						switch prof {
						case "absent":
							delete(s.Vals, "profile")
						case "canon":
							if canon == "" || !strings.HasPrefix(canon, "http") {
								continue
							}
							s.Vals["profile"] = V{K: "prof", S: []any{canon}}
						}
						run("derived:"+kind, s)
					}
				}
			}
			for i, c1 := range d.Order {
				for _, c2 := range d.Order[i+1:] {
					for _, a1 := range d.alts(p, c1) {
						for _, a2 := range d.alts(p, c2) {
							if a.Tier != "thorough" && cc.r.Intn(5) != 0 {
								continue
							}
							s := bases["full"].clone()
							s.apply(a1)
							s.apply(a2)
							run("pair", s)
						}
					}
				}
			}
			for k, l := range d.SwLists {
				if a.Tier != "thorough" && k%4 != 0 {
					continue
				}
				s := bases["full"].clone()
				s.Sw = swFromAny(l)
				run("swlist", s)
			}
			nr := 1500
			if a.Tier == "thorough" {
				nr = 40000
			}
			for k := 0; k < nr; k++ {
				s := CSpec{P: p, Canon: canonOf[p], Vals: map[string]V{}}
				for _, c := range d.Order {
					as := d.alts(p, c)
					if len(as) > 0 {
						s.apply(as[cc.r.Intn(len(as))])
					}
				}
				run("random", s)
			}
		}
		// an extension profile whose own Validate() is stricter than the common rules (harness profile X2: profile-2
		// rules plus "timestamp, when present, is not negative"): every gate consults the claims-set's own validator
		if strings.Contains(a.Reg, "X2") {
			registerExtras("X2")
			bases := map[string]CSpec{"full": d.base("P2", "full"), "minimal": d.base("P2", "minimal")}
			for kind, bs := range bases {
				specs := []CSpec{bs}
				for _, c := range []string{"implId", "nonce", "lifecycle"} {
					for _, al := range d.alts("P2", c) {
						s := bs.clone()
						s.apply(al)
						specs = append(specs, s)
					}
				}
				for k, s := range specs {
					xs := s.clone()
					xs.Canon = X2Name
					xs.Vals["profile"] = V{K: "prof", S: []any{X2Name}}
					for _, ts := range []*int64{nil, i64(0), i64(1721138454), i64(-1), i64(-2147483648)} {
						if k > 0 && ts != nil && *ts > 0 {
							continue
						}
						x := cc.BuildLit(xs)
						p2, ok := x.(*psatoken.P2Claims)
						if !ok {
							fatal("X2 base is %T", x)
						}
						xc := &X2Claims{P2Claims: *p2, Timestamp: ts}
						runC("x2:"+kind, xc)
					}
				}
			}
		}
		t.Close(nil)
	}
}

func i64(v int64) *int64 { return &v }
