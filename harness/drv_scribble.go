package main

// C18 (second half): decoded claims hold no reference to the caller's input buffer.

import (
	"encoding/json"

	"github.com/veraison/psatoken"
)

type scribbleEv struct {
	B    int    `json:"b"`
	I    int    `json:"i"`
	Op   string `json:"op"`
	Via  string `json:"via"`
	Pre  Obj    `json:"pre"`
	Post Obj    `json:"post"`
	Same bool   `json:"same"` // validation and every getter result identical after the overwrite
	Enc  bool   `json:"encSame"`
}

func scribble(buf []byte, seed byte) {
	for i := range buf {
		buf[i] = 0xA5 ^ seed ^ byte(i)
	}
}

func init() {
	drivers["claims-scribble"] = func(a *Args) {
		d := loadDomains(a.In)
		t := NewTracer(a.Out)
		cc := Conc{r: a.Rand()}
		b := 0
		do := func(via string, buf []byte, dec func([]byte) (psatoken.IClaims, error)) {
			c, err := dec(buf)
			if err != nil || c == nil {
				return
			}
			ev := scribbleEv{B: b, Op: "Scribble", Via: via, Pre: AbsClaims(c)}
			v1, g1, e1 := safeValidate(c), safeGetters(c), encDigest(c)
			scribble(buf, byte(b))
			v2, g2, e2 := safeValidate(c), safeGetters(c), encDigest(c)
			ev.Post = AbsClaims(c)
			ev.Same = jsonEq(v1, v2) && jsonEq(g1, g2)
			ev.Enc = e1 == e2
			t.Emit(ev, true, true)
			b++
		}
		for _, p := range []string{"P1", "P2"} {
			specs := []CSpec{d.base(p, "full"), d.base(p, "minimal"), d.base(p, "nosw")}
			for _, c := range d.Order {
				for _, al := range d.alts(p, c) {
					s := d.base(p, "full")
					s.apply(al)
					specs = append(specs, s)
				}
			}
			for k, l := range d.SwLists {
				if k%7 == 0 {
					s := d.base(p, "full")
					s.Sw = swFromAny(l)
					specs = append(specs, s)
				}
			}
			for _, s := range specs {
				s := s
				do("DecodeClaimsFromCBOR", cc.DocCBOR(s), psatoken.DecodeClaimsFromCBOR)
				do("DecodeClaimsFromJSON", cc.DocJSON(s), psatoken.DecodeClaimsFromJSON)
				do("UnmarshalCBOR", cc.DocCBOR(s), func(buf []byte) (psatoken.IClaims, error) {
					o := blankClaims(s.P, s.Canon)
					return o, o.(cborUnmarshaler).UnmarshalCBOR(buf)
				})
				do("UnmarshalJSON", cc.DocJSON(s), func(buf []byte) (psatoken.IClaims, error) {
					o := blankClaims(s.P, s.Canon)
					return o, json.Unmarshal(buf, o)
				})
			}
		}
		t.Close(nil)
	}
}
