package main

// deepDump renders everything reachable from a value (unexported fields included, nil and
// empty distinguished) as a canonical string: the "deep snapshot" used to observe that a
// read-side call changed nothing.

import (
	"fmt"
	"reflect"
	"sort"
	"strings"
	"unsafe"
)

func deepDump(x any) string {
	var sb strings.Builder
	dumpVal(&sb, reflect.ValueOf(x), 0)
	return sb.String()
}

func addressable(v reflect.Value) reflect.Value {
	if v.CanAddr() {
		return v
	}
	cp := reflect.New(v.Type()).Elem()
	cp.Set(v)
	return cp
}

func dumpVal(sb *strings.Builder, v reflect.Value, depth int) {
	if depth > 40 {
		sb.WriteString("<deep>")
		return
	}
	if !v.IsValid() {
		sb.WriteString("<invalid>")
		return
	}
	switch v.Kind() {
	case reflect.Pointer:
		if v.IsNil() {
			sb.WriteString("nil")
			return
		}
		sb.WriteString("&")
		dumpVal(sb, v.Elem(), depth+1)
	case reflect.Interface:
		if v.IsNil() {
			sb.WriteString("inil")
			return
		}
		sb.WriteString("(" + v.Elem().Type().String() + ")")
		dumpVal(sb, v.Elem(), depth+1)
	case reflect.Struct:
		v = addressable(v)
		sb.WriteString("{")
		for i := 0; i < v.NumField(); i++ {
			f := v.Field(i)
			if !f.CanInterface() {
				f = reflect.NewAt(f.Type(), unsafe.Pointer(f.UnsafeAddr())).Elem()
			}
			sb.WriteString(v.Type().Field(i).Name + ":")
			dumpVal(sb, f, depth+1)
			sb.WriteString(";")
		}
		sb.WriteString("}")
	case reflect.Slice:
		if v.IsNil() {
			sb.WriteString("snil")
			return
		}
		if v.Type().Elem().Kind() == reflect.Uint8 {
			fmt.Fprintf(sb, "h'%x'", v.Bytes())
			return
		}
		fmt.Fprintf(sb, "[%d:", v.Len())
		for i := 0; i < v.Len(); i++ {
			dumpVal(sb, v.Index(i), depth+1)
			sb.WriteString(",")
		}
		sb.WriteString("]")
	case reflect.Array:
		sb.WriteString("[")
		for i := 0; i < v.Len(); i++ {
			dumpVal(sb, v.Index(i), depth+1)
			sb.WriteString(",")
		}
		sb.WriteString("]")
	case reflect.Map:
		if v.IsNil() {
			sb.WriteString("mnil")
			return
		}
		keys := v.MapKeys()
		strs := make([]string, len(keys))
		for i, k := range keys {
			var kb strings.Builder
			dumpVal(&kb, k, depth+1)
			var vb strings.Builder
			dumpVal(&vb, v.MapIndex(k), depth+1)
			strs[i] = kb.String() + "=>" + vb.String()
		}
		sort.Strings(strs)
		sb.WriteString("map{" + strings.Join(strs, ",") + "}")
	case reflect.String:
		fmt.Fprintf(sb, "%q", v.String())
	case reflect.Bool:
		fmt.Fprintf(sb, "%v", v.Bool())
	case reflect.Int, reflect.Int8, reflect.Int16, reflect.Int32, reflect.Int64:
		fmt.Fprintf(sb, "%d", v.Int())
	case reflect.Uint, reflect.Uint8, reflect.Uint16, reflect.Uint32, reflect.Uint64, reflect.Uintptr:
		fmt.Fprintf(sb, "%d", v.Uint())
	case reflect.Float32, reflect.Float64:
		fmt.Fprintf(sb, "%v", v.Float())
	case reflect.Func, reflect.Chan, reflect.UnsafePointer:
		if v.IsNil() {
			sb.WriteString("nil")
		} else {
			sb.WriteString("<" + v.Kind().String() + ">")
		}
	default:
		sb.WriteString("<" + v.Kind().String() + ">")
	}
}
