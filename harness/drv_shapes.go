package main

// C15: a family of struct shapes (flat, one and two levels of embedding, embedded interface
// holding a struct or nil, omitempty / "-" / untagged fields, extension claims, synthetic
// structs with up to 70 000 keys) through the embedding-aware serialisers and back.

import (
	"bytes"
	"encoding/json"
	"fmt"
	"reflect"
	"strconv"
	"strings"

	"verif/harness/cborx"

	cbor "github.com/fxamacker/cbor/v2"
	"github.com/veraison/psatoken"
	"github.com/veraison/psatoken/encoding"
)

// ---- the struct family (claims convention: pointer / interface fields, integer CBOR keys) ----
type ShFlat struct {
	A *int    `cbor:"1,keyasint" json:"a"`
	B *string `cbor:"2,keyasint,omitempty" json:"b,omitempty"`
	C *[]byte `cbor:"3,keyasint,omitempty" json:"c,omitempty"`
	D *int    `cbor:"-" json:"-"`
	E *int
	F *uint16 `cbor:"-5,keyasint" json:"f"`
	G *int64  `cbor:"100,keyasint,omitempty" json:"g,omitempty"`
}
type ShFlat2 struct { // every field tagged: comparable with the plain marshallers
	A *int    `cbor:"1,keyasint" json:"a"`
	B *string `cbor:"2,keyasint,omitempty" json:"b,omitempty"`
	C *[]byte `cbor:"3,keyasint,omitempty" json:"c,omitempty"`
	D *int    `cbor:"-" json:"-"`
	F *uint16 `cbor:"-5,keyasint" json:"f"`
	G *int64  `cbor:"100,keyasint,omitempty" json:"g,omitempty"`
	H *bool   `cbor:"24,keyasint,omitempty" json:"h,omitempty"`
}
type ShLeaf struct {
	L1 *int    `cbor:"20,keyasint" json:"l1"`
	L2 *string `cbor:"21,keyasint,omitempty" json:"l2,omitempty"`
}
type ShMid struct {
	M1 *int `cbor:"10,keyasint,omitempty" json:"m1,omitempty"`
	ShLeaf
	M2 *[]byte `cbor:"11,keyasint" json:"m2"`
}
type ShTop struct {
	T1 *string `cbor:"30,keyasint,omitempty" json:"t1,omitempty"`
	ShMid
	T2 *int `cbor:"31,keyasint" json:"t2"`
}
type ShOne struct {
	ShLeaf
	O1 *int `cbor:"40,keyasint,omitempty" json:"o1,omitempty"`
}
type ShIface interface{ Marker() }

func (*ShLeaf) Marker() {}

type ShWithIface struct {
	W1 *int `cbor:"50,keyasint" json:"w1"`
	ShIface
	W2 *string `cbor:"51,keyasint,omitempty" json:"w2,omitempty"`
}

// the same shape under another Go type: values of this type are first seen with the interface holding nil, of
// ShWithIface with the interface holding a struct (anything remembered per type must not depend on that order)
type ShWithIfaceB struct {
	W1 *int `cbor:"50,keyasint" json:"w1"`
	ShIface
	W2 *string `cbor:"51,keyasint,omitempty" json:"w2,omitempty"`
}
type ShAllOptional struct {
	P *int    `cbor:"1,keyasint,omitempty" json:"p,omitempty"`
	Q *string `cbor:"2,keyasint,omitempty" json:"q,omitempty"`
}
type ShDupInner struct {
	X *int `cbor:"1,keyasint,omitempty" json:"a,omitempty"`
}
type ShDup struct { // the embedded struct repeats a key of the outer one
	A *int `cbor:"1,keyasint,omitempty" json:"a,omitempty"`
	ShDupInner
}

// field description as of spec/PsaCodec.tla
type shField struct {
	Kind      string    `json:"kind"`
	Key       any       `json:"key"`
	Tagged    bool      `json:"tagged"`
	Dash      bool      `json:"dash"`
	OmitEmpty bool      `json:"omitempty"`
	Zero      bool      `json:"zero"`
	NilIface  bool      `json:"nilIface"`
	Sub       []shField `json:"sub"`
	// for the discovery of the profile field
	Name     string `json:"name"`
	CborKey  string `json:"cborKey"`
	HasCbor  bool   `json:"hasCbor"`
	HasJSON  bool   `json:"hasJson"`
	JSONName string `json:"jsonName"`
}

func describe(v reflect.Value, fmtName string) []shField {
	if v.Kind() == reflect.Pointer {
		v = v.Elem()
	}
	out := []shField{}
	t := v.Type()
	for i := 0; i < t.NumField(); i++ {
		sf, fv := t.Field(i), v.Field(i)
		zeroKey := any(0)
		if fmtName == "json" {
			zeroKey = ""
		}
		if sf.Anonymous && (sf.Type.Kind() == reflect.Struct || sf.Type.Kind() == reflect.Interface) {
			f := shField{Kind: "embed", Key: zeroKey, Sub: []shField{}}
			if sf.Type.Kind() == reflect.Interface {
				if fv.IsNil() {
					f.NilIface = true
				} else {
					f.Sub = describe(fv.Elem(), fmtName)
				}
			} else {
				f.Sub = describe(fv, fmtName)
			}
			out = append(out, f)
			continue
		}
		f := shField{Kind: "field", Key: zeroKey, Sub: []shField{}, Zero: fv.IsZero(), Name: sf.Name}
		if ct, ok := sf.Tag.Lookup("cbor"); ok {
			f.HasCbor, f.CborKey = true, strings.Split(ct, ",")[0]
		}
		if jt, ok := sf.Tag.Lookup("json"); ok {
			f.HasJSON, f.JSONName = true, strings.Split(jt, ",")[0]
		}
		if tag, ok := sf.Tag.Lookup(fmtName); ok {
			f.Tagged = true
			parts := strings.Split(tag, ",")
			if parts[0] == "-" {
				f.Dash = true
			} else if fmtName == "cbor" {
				k, _ := strconv.Atoi(parts[0])
				f.Key = k
			} else {
				f.Key = parts[0]
			}
			for _, o := range parts[1:] {
				if o == "omitempty" {
					f.OmitEmpty = true
				}
			}
		}
		out = append(out, f)
	}
	return out
}

// settable leaf fields of a value, depth first (pointer-typed, tagged or not)
func leafFields(v reflect.Value, acc *[]reflect.Value) {
	if v.Kind() == reflect.Pointer {
		v = v.Elem()
	}
	t := v.Type()
	for i := 0; i < t.NumField(); i++ {
		sf, fv := t.Field(i), v.Field(i)
		switch {
		case sf.Anonymous && sf.Type.Kind() == reflect.Struct:
			leafFields(fv, acc)
		case sf.Anonymous && sf.Type.Kind() == reflect.Interface:
			if !fv.IsNil() {
				leafFields(fv.Elem(), acc)
			}
		case sf.Type.Kind() == reflect.Pointer:
			*acc = append(*acc, fv)
		}
	}
}

func (c Conc) setLeaf(fv reflect.Value) {
	p := reflect.New(fv.Type().Elem())
	switch p.Elem().Kind() {
	case reflect.Int, reflect.Int64, reflect.Int32:
		p.Elem().SetInt(int64(c.r.Intn(2000) - 1000))
	case reflect.Uint16, reflect.Uint:
		p.Elem().SetUint(uint64(c.r.Intn(65536)))
	case reflect.Bool:
		p.Elem().SetBool(c.r.Intn(2) == 0)
	case reflect.String:
		p.Elem().SetString(c.str(1+c.r.Intn(6), c.r.Intn(3)))
	case reflect.Slice:
		p.Elem().SetBytes(c.bytes(1+c.r.Intn(40), 2))
	}
	fv.Set(p)
}

type serRes struct {
	OK     bool  `json:"ok"`
	Keys   []any `json:"keys"`
	Hdr    int   `json:"hdr"`
	B0     int   `json:"b0"`
	N      int   `json:"n"`
	Stable bool  `json:"stable"`
}
type popRes struct {
	OK    bool `json:"ok"`
	Equal bool `json:"equal"`
}
type plainRes struct {
	Applicable bool `json:"applicable"`
	SameMap    bool `json:"sameMap"`
}
type missRes struct {
	Key any  `json:"key"`
	OK  bool `json:"ok"`
}
type shapeEv struct {
	B       int       `json:"b"`
	I       int       `json:"i"`
	Op      string    `json:"op"`
	Type    string    `json:"type"`
	Fmt     string    `json:"fmt"`
	Shape   []shField `json:"shape"`
	Ser     serRes    `json:"ser"`
	Pop     popRes    `json:"pop"`
	Plain   plainRes  `json:"plain"`
	Missing []missRes `json:"missing"`
	DupOK   bool      `json:"dupOK"`
	Pan     bool      `json:"panicked"`
}

// top-level keys of serialised output, in order, as the independent readers see them
func cborTop(b []byte) (keys []any, hdr, b0, n int, pairs [][2][]byte, ok bool) {
	node, err := cborx.Parse(b)
	if err != nil || node.Major != 5 || node.Indef {
		return nil, 0, 0, 0, nil, false
	}
	keys = []any{}
	n = len(node.Items) / 2
	b0 = int(b[0])
	hdr = len(b)
	if n > 0 {
		hdr = node.Items[0].Start
	}
	for i := 0; i+1 < len(node.Items); i += 2 {
		k, _ := node.Items[i].IntVal()
		keys = append(keys, int(k))
		pairs = append(pairs, [2][]byte{b[node.Items[i].Start:node.Items[i].End], b[node.Items[i+1].Start:node.Items[i+1].End]})
	}
	return keys, hdr, b0, n, pairs, true
}

func jsonTop(b []byte) (keys []any, vals []json.RawMessage, ok bool) {
	dec := json.NewDecoder(bytes.NewReader(b))
	tok, err := dec.Token()
	if err != nil || tok != json.Delim('{') {
		return nil, nil, false
	}
	keys = []any{}
	for dec.More() {
		kt, err := dec.Token()
		if err != nil {
			return nil, nil, false
		}
		var raw json.RawMessage
		if err := dec.Decode(&raw); err != nil {
			return nil, nil, false
		}
		keys = append(keys, kt.(string))
		vals = append(vals, raw)
	}
	return keys, vals, true
}

func hasEmbeds(t reflect.Type) bool {
	for i := 0; i < t.NumField(); i++ {
		if t.Field(i).Anonymous {
			return true
		}
	}
	return false
}

func clearUnserialised(v reflect.Value) {
	if v.Kind() == reflect.Pointer {
		v = v.Elem()
	}
	t := v.Type()
	for i := 0; i < t.NumField(); i++ {
		sf, fv := t.Field(i), v.Field(i)
		if sf.Anonymous && sf.Type.Kind() == reflect.Struct {
			clearUnserialised(fv)
			continue
		}
		if sf.Anonymous && sf.Type.Kind() == reflect.Interface {
			if !fv.IsNil() {
				clearUnserialised(fv.Elem())
			}
			continue
		}
		tag, ok := sf.Tag.Lookup("cbor")
		if !ok || strings.HasPrefix(tag, "-") && !strings.HasPrefix(tag, "-5") {
			fv.Set(reflect.Zero(fv.Type()))
		}
	}
}

type shapeDecoy struct {
	A string `cbor:"1,keyasint" json:"a"`
	B []byte `cbor:"2,keyasint,omitempty" json:"b,omitempty"`
	C int    `cbor:"3,keyasint,omitempty" json:"c,omitempty"`
}

func observeShape(b int, typeName, fmtName string, val any, fresh func() any, cc Conc) shapeEv {
	ev := shapeEv{B: b, Op: "Shape", Type: typeName, Fmt: fmtName, Shape: describe(reflect.ValueOf(val), fmtName),
		Ser: serRes{Keys: []any{}}, Missing: []missRes{}}
	ev.Pan = safely(func() {
		ser := func(x any) ([]byte, error) {
			if fmtName == "cbor" {
				return encoding.SerializeStructToCBOR(xem, x)
			}
			return encoding.SerializeStructToJSON(x)
		}
		pop := func(data []byte, dst any) error {
			if fmtName == "cbor" {
				return encoding.PopulateStructFromCBOR(xdm, data, dst)
			}
			return encoding.PopulateStructFromJSON(data, dst)
		}
		out, err := ser(val)
		ev.Ser.OK = err == nil
		if err != nil {
			return
		}
		keep := append([]byte{}, out...)
		out2, err2 := ser(val)
		ev.Ser.Stable = err2 == nil && bytes.Equal(out, out2)
		// ... and what was returned stays what it was while other values are serialised (no shared buffer)
		for _, decoy := range []any{&shapeDecoy{A: "decoy", B: []byte("0123456789abcdef0123456789abcdef"), C: 7}, &shapeDecoy{A: "x"}} {
			if _, derr := ser(decoy); derr != nil {
				ev.Ser.Stable = false
			}
		}
		ev.Ser.Stable = ev.Ser.Stable && bytes.Equal(out, keep) && bytes.Equal(out2, keep)
		var pairs [][2][]byte
		var jvals []json.RawMessage
		if fmtName == "cbor" {
			var ok bool
			ev.Ser.Keys, ev.Ser.Hdr, ev.Ser.B0, ev.Ser.N, pairs, ok = cborTop(out)
			if !ok {
				ev.Ser.Keys = []any{"unparseable"}
			}
		} else {
			var ok bool
			ev.Ser.Keys, jvals, ok = jsonTop(out)
			if !ok {
				ev.Ser.Keys = []any{"unparseable"}
			}
			ev.Ser.N = len(ev.Ser.Keys)
		}
		// populate a fresh struct
		dst := fresh()
		perr := pop(append([]byte{}, out...), dst)
		ev.Pop.OK = perr == nil
		if perr == nil {
			cp := fresh()
			pop(append([]byte{}, out...), cp) // an independent copy for the comparison below
			orig := reflect.ValueOf(val)
			want := reflect.New(orig.Elem().Type())
			want.Elem().Set(orig.Elem())
			clearUnserialised(want)
			re, rerr := ser(dst)
			ev.Pop.Equal = rerr == nil && bytes.Equal(re, out) && reflect.DeepEqual(dst, cp)
			if oc, isClaims := val.(psatoken.IClaims); isClaims {
				// claims values: compared through the projection and every getter (a nil and an empty
				// component container are the same value)
				dc := dst.(psatoken.IClaims)
				ev.Pop.Equal = jsonEq(AbsClaims(oc), AbsClaims(dc)) && jsonEq(allGetters(oc), allGetters(dc))
			}
			if !hasIfaceField(orig.Elem().Type()) && strings.HasPrefix(orig.Elem().Type().Name(), "Sh") {
				ev.Pop.Equal = ev.Pop.Equal && reflect.DeepEqual(want.Interface(), dst)
			}
		}
		// same decoded map as the plain marshaller (types without embedding)
		if !hasEmbeds(reflect.TypeOf(val).Elem()) && allTagged(reflect.TypeOf(val).Elem()) {
			ev.Plain.Applicable = true
			if fmtName == "cbor" {
				var m1, m2 map[int]any
				pb, e1 := xem.Marshal(val)
				ev.Plain.SameMap = e1 == nil && cbor.Unmarshal(pb, &m1) == nil && cbor.Unmarshal(out, &m2) == nil && reflect.DeepEqual(m1, m2)
			} else {
				var m1, m2 map[string]any
				pb, e1 := json.Marshal(val)
				ev.Plain.SameMap = e1 == nil && json.Unmarshal(pb, &m1) == nil && json.Unmarshal(out, &m2) == nil && reflect.DeepEqual(m1, m2)
			}
		}
		// drop each key in turn
		for i, k := range ev.Ser.Keys {
			var data []byte
			if fmtName == "cbor" {
				e := &cborx.Enc{}
				e.Map(len(pairs) - 1)
				for j, p := range pairs {
					if j != i {
						e.Raw(p[0]).Raw(p[1])
					}
				}
				data = e.Bytes()
			} else {
				var sb bytes.Buffer
				sb.WriteString("{")
				first := true
				for j := range ev.Ser.Keys {
					if j == i {
						continue
					}
					if !first {
						sb.WriteString(",")
					}
					first = false
					kb, _ := json.Marshal(ev.Ser.Keys[j])
					sb.Write(kb)
					sb.WriteString(":")
					sb.Write(jvals[j])
				}
				sb.WriteString("}")
				data = sb.Bytes()
			}
			ev.Missing = append(ev.Missing, missRes{Key: k, OK: pop(data, fresh()) == nil})
		}
		// a duplicate key in CBOR input
		if fmtName == "cbor" && len(pairs) > 0 {
			e := &cborx.Enc{}
			e.Map(len(pairs) + 1)
			for _, p := range pairs {
				e.Raw(p[0]).Raw(p[1])
			}
			e.Raw(pairs[0][0]).Raw(pairs[0][1])
			ev.DupOK = pop(e.Bytes(), fresh()) == nil
		}
	})
	return ev
}

// allTagged: the claims convention (every field carries cbor and json tags); an untagged field is
// skipped by the embedding-aware codec but emitted under its Go name by the plain marshallers
func allTagged(t reflect.Type) bool {
	for i := 0; i < t.NumField(); i++ {
		if _, ok := t.Field(i).Tag.Lookup("cbor"); !ok {
			return false
		}
	}
	return true
}

func hasIfaceField(t reflect.Type) bool {
	for i := 0; i < t.NumField(); i++ {
		if t.Field(i).Type.Kind() == reflect.Interface {
			return true
		}
	}
	return false
}

type headerEv struct {
	B     int    `json:"b"`
	I     int    `json:"i"`
	Op    string `json:"op"`
	N     int    `json:"n"`
	Hdr   int    `json:"hdr"`
	B0    int    `json:"b0"`
	Count int    `json:"count"` // entries the independent reader found
	PopOK bool   `json:"popOK"`
	Equal bool   `json:"equal"`
	JSON  bool   `json:"jsonOK"` // JSON round trip of the same struct
	Pan   bool   `json:"panicked"`
}

func init() {
	drivers["codec-shapes"] = func(a *Args) {
		cc := Conc{r: a.Rand()}
		t := NewTracer(a.Out)
		b := 0
		type fam struct {
			name  string
			fresh func() any
		}
		fams := []fam{
			{"flat", func() any { return &ShFlat{} }},
			{"flat2", func() any { return &ShFlat2{} }},
			{"one", func() any { return &ShOne{} }},
			{"top", func() any { return &ShTop{} }},
			{"iface-struct", func() any { return &ShWithIface{ShIface: &ShLeaf{}} }},
			{"iface-nil", func() any { return &ShWithIface{} }},
			{"ifaceB-nil", func() any { return &ShWithIfaceB{} }},
			{"ifaceB-struct", func() any { return &ShWithIfaceB{ShIface: &ShLeaf{}} }},
			{"ifaceB-nil-again", func() any { return &ShWithIfaceB{} }},
			{"alloptional", func() any { return &ShAllOptional{} }},
			{"dup", func() any { return &ShDup{} }},
		}
		for _, f := range fams {
			var leaves []reflect.Value
			probe := f.fresh()
			leafFields(reflect.ValueOf(probe), &leaves)
			n := len(leaves)
			reps := 1
			if a.Tier == "thorough" {
				reps = 4
			}
			for mask := 0; mask < 1<<n; mask++ {
				if f.name == "dup" && mask != 1<<n-1 {
					continue // only the case the property speaks about: both holders of the key set => error
				}
				for rep := 0; rep < reps; rep++ {
					val := f.fresh()
					var lv []reflect.Value
					leafFields(reflect.ValueOf(val), &lv)
					for i := range lv {
						if mask&(1<<i) != 0 {
							cc.setLeaf(lv[i])
						}
					}
					for _, fm := range []string{"cbor", "json"} {
						ev := observeShape(b, f.name, fm, val, f.fresh, cc)
						t.Emit(ev, true, true)
						b++
					}
				}
			}
		}
		// an extension profile built on each base profile
		d := loadDomains(a.In)
		for _, p := range []string{"P1", "P2"} {
			for _, kind := range []string{"full", "minimal", "nosw"} {
				s := d.base(p, kind)
				var val any
				var fresh func() any
				if p == "P1" {
					s.Vals["profile"] = V{K: "prof", S: []any{X1Name}}
					s.Canon = X1Name
					x, ok := cc.BuildSetters(s, NewX1Claims)
					if !ok {
						continue
					}
					val, fresh = x, func() any { return NewX1Claims() }
				} else {
					s.Vals["profile"] = V{K: "prof", S: []any{X2Name}}
					s.Canon = X2Name
					x, ok := cc.BuildSetters(s, NewX2Claims)
					if !ok {
						continue
					}
					if kind == "full" {
						ts := int64(1721138454)
						x.(*X2Claims).Timestamp = &ts
					}
					val, fresh = x, func() any { return NewX2Claims() }
				}
				for _, fm := range []string{"cbor", "json"} {
					ev := observeShape(b, "ext:"+p+":"+kind, fm, val, fresh, cc)
					t.Emit(ev, true, true)
					b++
				}
			}
		}
		// discovery of the profile field (what RegisterProfile relies on)
		tagFamily := []struct {
			name string
			val  any
		}{
			{"P1Claims", blankClaims("P1", "x")}, {"P2Claims", blankClaims("P2", "x")}, {"X1", NewX1Claims()}, {"X2", NewX2Claims()},
			{"X3", NewX3Claims()}, {"X4", GenProfile{"http://example.com/n1", "X4"}.GetClaims()}, {"X5", &X5Claims{}}, {"X6", &X6Claims{}},
			{"byName", &TgByName{}}, {"byNameNoJSON", &TgByNameNoJSON{}}, {"keyNoJSON", &TgKeyNoJSON{}}, {"nameWithOtherKey", &TgNameWithOtherKey{}},
			{"nameThenKey", &TgNameThenKey{}}, {"nested2", &TgNested2{}}, {"ifaceNil", &TgIface{}}, {"ifaceSet", &TgIface{TgMarker: &TgInner{}}},
			{"twoEmbedsSecond", &TgTwoEmbeds{}}, {"embedNoJSONFirst", &TgEmbedNoJSONFirst{}}, {"flatNone", &ShFlat2{}}, {"top", &ShTop{}},
		}
		for _, tf := range tagFamily {
			ev := map[string]any{"b": b, "i": 0, "op": "ProfileTag", "type": tf.name, "shape": describe(reflect.ValueOf(tf.val), "cbor")}
			var tag string
			var err error
			pan := safely(func() { tag, err = encoding.GetProfileJSONTag(tf.val) })
			ev["ok"], ev["tag"], ev["panicked"] = err == nil && !pan, tag, pan
			t.Emit(ev, true, true)
			b++
		}
		// synthetic flat structs around the header boundaries
		sizes := []int{0, 1, 22, 23, 24, 25, 254, 255, 256, 257, 2048}
		if a.Tier == "thorough" {
			sizes = append(sizes, 65534, 65535, 65536, 65537, 70000)
		} else {
			sizes = append(sizes, 65535, 65536)
		}
		intPtr := reflect.TypeOf((*int)(nil))
		for _, n := range sizes {
			fs := make([]reflect.StructField, n)
			for k := 0; k < n; k++ {
				fs[k] = reflect.StructField{Name: fmt.Sprintf("F%d", k), Type: intPtr,
					Tag: reflect.StructTag(fmt.Sprintf(`cbor:"%d,keyasint,omitempty" json:"f%d,omitempty"`, k, k))}
			}
			st := reflect.StructOf(fs)
			v := reflect.New(st)
			for k := 0; k < n; k++ {
				x := k
				v.Elem().Field(k).Set(reflect.ValueOf(&x))
			}
			ev := headerEv{B: b, Op: "Header", N: n}
			ev.Pan = safely(func() {
				out, err := encoding.SerializeStructToCBOR(xem, v.Interface())
				if err != nil {
					return
				}
				ev.B0 = int(out[0])
				if node, perr := cborx.Parse(out); perr == nil && node.Major == 5 {
					ev.Count = len(node.Items) / 2
					ev.Hdr = len(out)
					if ev.Count > 0 {
						ev.Hdr = node.Items[0].Start
					}
				}
				dst := reflect.New(st)
				ev.PopOK = encoding.PopulateStructFromCBOR(xdm, out, dst.Interface()) == nil
				ev.Equal = ev.PopOK && reflect.DeepEqual(dst.Interface(), v.Interface())
				if n <= 2048 {
					j, jerr := encoding.SerializeStructToJSON(v.Interface())
					dj := reflect.New(st)
					ev.JSON = jerr == nil && encoding.PopulateStructFromJSON(j, dj.Interface()) == nil && reflect.DeepEqual(dj.Interface(), v.Interface())
				} else {
					ev.JSON = true
				}
			})
			t.Emit(ev, true, true)
			b++
		}
		_ = psatoken.Profile1Name
		t.Close(nil)
	}
}

// ---- types for the discovery of the profile field ----
type TgByName struct {
	A       *int    `cbor:"1,keyasint" json:"a"`
	Profile *string `json:"the-profile"`
}
type TgByNameNoJSON struct {
	Profile *string
}
type TgKeyNoJSON struct {
	P *string `cbor:"265,keyasint"`
}
type TgNameWithOtherKey struct { // named Profile but carrying another cbor key: not a profile field
	Profile *string `cbor:"7,keyasint" json:"profile-ish"`
}
type TgNameThenKey struct { // the cbor key wins over the field name
	Profile *string `json:"by-name"`
	Q       *string `cbor:"-75000,keyasint" json:"by-key"`
}
type TgInner struct {
	Z *string `cbor:"265,keyasint" json:"inner-profile"`
}

func (*TgInner) TgMark() {}

type TgMid struct {
	M *int `cbor:"3,keyasint" json:"m"`
	TgInner
}
type TgNested2 struct {
	N *int `cbor:"4,keyasint" json:"n"`
	TgMid
}
type TgMarker interface{ TgMark() }
type TgIface struct {
	I *int `cbor:"5,keyasint" json:"i"`
	TgMarker
}
type TgNoProfile struct {
	K *int `cbor:"8,keyasint" json:"k"`
}
type TgTwoEmbeds struct {
	TgNoProfile
	TgInner
}
type TgEmbedNoJSONFirst struct { // the first embedded struct has a profile field without json tag: an error, not "keep looking"
	TgKeyNoJSON
	TgInner
}
