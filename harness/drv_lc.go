package main

// C14: all 65 536 security-lifecycle values through the mapping, the validator and both
// profiles' setters and getters.

import (
	"encoding/json"
	"fmt"

	"github.com/veraison/psatoken"
)

type lcEvent struct {
	Op      string   `json:"op"`
	V       int      `json:"v"`
	State   int      `json:"state"`
	Valid   bool     `json:"valid"`
	Name    string   `json:"name"`
	VOK     bool     `json:"vok"`
	VCls    []string `json:"vcls"`
	SetP1   Ret      `json:"setP1"`
	SetP2   Ret      `json:"setP2"`
	GetP1   Ret      `json:"getP1"` // getter after the setter (stored only when the setter succeeded)
	GetP2   Ret      `json:"getP2"`
	LitP1   Ret      `json:"litP1"` // getter on a claims-set built with the value in place
	LitP2   Ret      `json:"litP2"`
	DecP1   Ret      `json:"decP1"` // getter on a claims-set decoded from JSON carrying the value
	DecP2   Ret      `json:"decP2"`
	StoreP1 V        `json:"storeP1"` // field after the setter
	StoreP2 V        `json:"storeP2"`
	HeldP1  Ret      `json:"heldP1"` // the setter on a claims-set that already holds this very value (put in place)
	HeldP2  Ret      `json:"heldP2"`
	OverP1  Ret      `json:"overP1"` // the setter on a claims-set holding 0x3000
	OverP2  Ret      `json:"overP2"`
	KeptP1  V        `json:"keptP1"` // field after that
	KeptP2  V        `json:"keptP2"`
	// independence of instances: other claims-sets that were given this value by their setter (two before, one after)
	// still hold it after the first pair was overwritten in place - through the stored pointer and by decoding
	// another value into the same struct
	IndP1   Ret `json:"indP1"`
	IndP2   Ret `json:"indP2"`
	IndLate Ret `json:"indLate"`
}

func lcGet(c psatoken.IClaims) Ret {
	v, err := c.GetSecurityLifeCycle()
	return mkRet(err, absInt(int64(v)))
}

func init() {
	drivers["lc"] = func(a *Args) {
		t := NewTracer(a.Out)
		for i := 0; i < 65536; i++ {
			v := uint16(i)
			st := psatoken.LifeCycleToState(v)
			ev := lcEvent{Op: "LC", V: i, State: int(st), Valid: st.IsValid(), Name: st.String()}
			verr := psatoken.ValidateSecurityLifeCycle(v)
			ev.VOK, ev.VCls = verr == nil, classes(verr)
			w1, _ := psatoken.NewClaims(psatoken.Profile1Name)
			w2, _ := psatoken.NewClaims(psatoken.Profile2Name)
			w1.SetSecurityLifeCycle(v)
			w2.SetSecurityLifeCycle(v)
			p1, _ := psatoken.NewClaims(psatoken.Profile1Name)
			p2, _ := psatoken.NewClaims(psatoken.Profile2Name)
			ev.SetP1 = mkRet(p1.SetSecurityLifeCycle(v), absent())
			ev.SetP2 = mkRet(p2.SetSecurityLifeCycle(v), absent())
			ev.GetP1, ev.GetP2 = lcGet(p1), lcGet(p2)
			ev.StoreP1, ev.StoreP2 = AbsClaims(p1).Lifecycle, AbsClaims(p2).Lifecycle
			if q := p1.(*psatoken.P1Claims).SecurityLifeCycle; q != nil {
				*q ^= 0xffff
			}
			if err := json.Unmarshal([]byte(`{"psa-security-lifecycle": 24576}`), p2.(*psatoken.P2Claims)); err != nil {
				fatal("decode into p2: %v", err)
			}
			w3, _ := psatoken.NewClaims([]string{psatoken.Profile1Name, psatoken.Profile2Name}[i%2])
			w3.SetSecurityLifeCycle(v)
			ev.IndP1, ev.IndP2, ev.IndLate = lcGet(w1), lcGet(w2), lcGet(w3)
			ev.LitP1 = lcGet(&psatoken.P1Claims{SecurityLifeCycle: &v, CanonicalProfile: psatoken.Profile1Name})
			ev.LitP2 = lcGet(&psatoken.P2Claims{SecurityLifeCycle: &v, CanonicalProfile: psatoken.Profile2Name})
			d1 := &psatoken.P1Claims{CanonicalProfile: psatoken.Profile1Name}
			d2 := &psatoken.P2Claims{CanonicalProfile: psatoken.Profile2Name}
			doc := []byte(fmt.Sprintf(`{"psa-security-lifecycle": %d}`, i))
			if err := json.Unmarshal(doc, d1); err != nil {
				fatal("decode p1: %v", err)
			}
			if err := json.Unmarshal(doc, d2); err != nil {
				fatal("decode p2: %v", err)
			}
			ev.DecP1, ev.DecP2 = lcGet(d1), lcGet(d2)
			// the verdict of the setter does not depend on what the claims-set holds already
			h1, h2 := v, v
			ev.HeldP1 = mkRet((&psatoken.P1Claims{SecurityLifeCycle: &h1, CanonicalProfile: psatoken.Profile1Name}).SetSecurityLifeCycle(v), absent())
			ev.HeldP2 = mkRet((&psatoken.P2Claims{SecurityLifeCycle: &h2, CanonicalProfile: psatoken.Profile2Name}).SetSecurityLifeCycle(v), absent())
			s1, s2 := uint16(0x3000), uint16(0x3000)
			o1 := &psatoken.P1Claims{SecurityLifeCycle: &s1, CanonicalProfile: psatoken.Profile1Name}
			o2 := &psatoken.P2Claims{SecurityLifeCycle: &s2, CanonicalProfile: psatoken.Profile2Name}
			ev.OverP1 = mkRet(o1.SetSecurityLifeCycle(v), absent())
			ev.OverP2 = mkRet(o2.SetSecurityLifeCycle(v), absent())
			ev.KeptP1, ev.KeptP2 = AbsClaims(o1).Lifecycle, AbsClaims(o2).Lifecycle
			t.Emit(ev, true, i%4096 == 0 || i%4096 == 255 || i%4096 == 256 || i%4096 == 4095)
		}
		t.Close(nil)
	}
}
