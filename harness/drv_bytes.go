package main

// C05 / C06: arbitrary byte strings through every decoding entry point, and whatever comes
// back through validation, every getter, both encoders and verification. Inputs are
// structure-aware mutations of valid seeds following the plan TLC exports from
// spec/PsaInputs.tla (replacements and container edits at every node, truncation at every
// offset, substitution of every header byte, hostile length headers, deep nesting).

import (
	"bytes"
	"encoding/json"
	"fmt"
	"math"
	"math/big"
	"reflect"
	"sort"
	"strings"
	"time"

	"verif/harness/cborx"

	"github.com/veraison/psatoken"
	"github.com/veraison/psatoken/encoding"
)

type bytesPlan struct {
	Replacements     []string         `json:"replacements"`
	ContainerEdits   []string         `json:"containerEdits"`
	JSONReplacements []string         `json:"jsonReplacements"`
	Hostile          []map[string]any `json:"hostile"`
	Nesting          []map[string]any `json:"nesting"`
	BigSizes         []int            `json:"bigSizes"`
	IntBoundaries    []string         `json:"intBoundaries"`
	LenBoundaries    []int            `json:"lenBoundaries"`
}

// intNode encodes a decimal string in -2^64 .. 2^64-1 as a CBOR integer node (preferred encoding).
func intNode(dec string) *cborx.Node {
	n, ok := new(big.Int).SetString(dec, 10)
	if !ok {
		panic("intNode " + dec)
	}
	e := &cborx.Enc{}
	if n.Sign() >= 0 {
		e.Uint(n.Uint64())
	} else {
		m := new(big.Int).Neg(n)
		m.Sub(m, big.NewInt(1))
		e.Nint(m.Uint64())
	}
	return rawNode(e.Bytes())
}

type bytesEv struct {
	B       int      `json:"b"`
	I       int      `json:"i"`
	Op      string   `json:"op"`
	Entry   string   `json:"entry"`
	Kind    string   `json:"kind"`
	Len     int      `json:"len"`
	Out     string   `json:"out"`    // ok err panic oom timeout crash
	Follow  []string `json:"follow"` // outcomes of the follow-up calls on whatever was returned
	AllocKB int      `json:"allocKB"`
	Ms      int      `json:"ms"`
	Hex     string   `json:"hex,omitempty"`
}

// ---------- re-encoding a parsed tree ----------
func encNode(e *cborx.Enc, n *cborx.Node) {
	switch n.Major {
	case 0:
		e.Uint(n.Arg)
	case 1:
		e.Nint(n.Arg)
	case 2:
		e.Bstr(n.Bytes)
	case 3:
		e.Tstr(string(n.Bytes))
	case 4:
		if n.Indef {
			e.IndefArr()
		} else {
			e.Arr(len(n.Items))
		}
		for _, c := range n.Items {
			encNode(e, c)
		}
		if n.Indef {
			e.Break()
		}
	case 5:
		if n.Indef {
			e.IndefMap()
		} else {
			e.Map(len(n.Items) / 2)
		}
		for _, c := range n.Items {
			encNode(e, c)
		}
		if n.Indef {
			e.Break()
		}
	case 6:
		e.Tag(n.Arg)
		encNode(e, n.Items[0])
	case 7:
		switch n.AI {
		case 25:
			e.Float16Bits(uint16(n.Arg))
		case 26:
			e.Float32(math.Float32frombits(uint32(n.Arg)))
		case 27:
			e.Float64(math.Float64frombits(n.Arg))
		default:
			e.Simple(byte(n.Arg))
		}
	}
}

func cloneNode(n *cborx.Node) *cborx.Node {
	c := *n
	c.Items = make([]*cborx.Node, len(n.Items))
	for i, x := range n.Items {
		c.Items[i] = cloneNode(x)
	}
	return &c
}

func allNodes(n *cborx.Node, acc *[]*cborx.Node) {
	*acc = append(*acc, n)
	for _, c := range n.Items {
		allNodes(c, acc)
	}
}

func rawNode(b []byte) *cborx.Node {
	n, err := cborx.Parse(b)
	if err != nil {
		panic(err)
	}
	return n
}

// replacement returns the node standing in for n
func replacement(kind string, n *cborx.Node, cc Conc) *cborx.Node {
	mk := func(hex string) *cborx.Node {
		var b []byte
		fmt.Sscanf(hex, "%x", &b)
		return rawNode(b)
	}
	switch kind {
	case "null":
		return mk("f6")
	case "undef":
		return mk("f7")
	case "emptySame":
		switch n.Major {
		case 2:
			return mk("40")
		case 3:
			return mk("60")
		case 4:
			return mk("80")
		case 5:
			return mk("a0")
		}
		return mk("00")
	case "uint":
		return mk("07")
	case "nint":
		return mk("20")
	case "bstr":
		return mk("4401020304")
	case "tstr":
		return mk("6178")
	case "arrEmpty":
		return mk("80")
	case "arr1":
		return mk("8101")
	case "mapEmpty":
		return mk("a0")
	case "map1":
		return mk("a10102")
	case "bool":
		return mk("f5")
	case "float":
		return mk("f93e00")
	case "hugeUint":
		return mk("1bffffffffffffffff")
	case "tagged":
		return &cborx.Node{Major: 6, Arg: 24, Items: []*cborx.Node{cloneNode(n)}}
	case "bstrWrapped":
		e := &cborx.Enc{}
		encNode(e, n)
		return &cborx.Node{Major: 2, Bytes: e.Bytes()}
	case "arrWrapped":
		return &cborx.Node{Major: 4, Items: []*cborx.Node{cloneNode(n)}}
	case "indefSame":
		c := cloneNode(n)
		if c.Major == 4 || c.Major == 5 {
			c.Indef = true
			return c
		}
		if c.Major == 2 || c.Major == 3 {
			e := &cborx.Enc{}
			if c.Major == 2 {
				e.IndefBstr().Bstr(c.Bytes).Break()
			} else {
				e.IndefTstr().Tstr(string(c.Bytes)).Break()
			}
			return &cborx.Node{Major: 7, AI: 99, Bytes: e.Bytes()} // raw marker, see encNodeRaw
		}
		return c
	}
	panic("replacement " + kind)
}

func encTree(root *cborx.Node) []byte {
	e := &cborx.Enc{}
	encNodeRaw(e, root)
	return e.Bytes()
}

// encNodeRaw is encNode with support for raw pre-encoded nodes (AI 99 marker)
func encNodeRaw(e *cborx.Enc, n *cborx.Node) {
	if n.Major == 7 && n.AI == 99 {
		e.Raw(n.Bytes)
		return
	}
	switch n.Major {
	case 4, 5:
		if n.Indef {
			if n.Major == 4 {
				e.IndefArr()
			} else {
				e.IndefMap()
			}
		} else if n.Major == 4 {
			e.Arr(len(n.Items))
		} else {
			e.Map(len(n.Items) / 2)
		}
		for _, c := range n.Items {
			encNodeRaw(e, c)
		}
		if n.Indef {
			e.Break()
		}
	case 6:
		e.Tag(n.Arg)
		encNodeRaw(e, n.Items[0])
	default:
		encNode(e, n)
	}
}

// ---------- entry points ----------
type entry struct {
	name string
	fmt  string // cbor cose json
	run  func(b []byte) (any, error)
}

func followClaims(c psatoken.IClaims, out *[]string) {
	rec := func(f func()) {
		if safely(f) {
			*out = append(*out, "panic")
		} else {
			*out = append(*out, "ok")
		}
	}
	if c == nil || (reflect.ValueOf(c).Kind() == reflect.Pointer && reflect.ValueOf(c).IsNil()) {
		return
	}
	rec(func() { _ = c.Validate() })
	rec(func() {
		c.GetProfile()
		c.GetClientID()
		c.GetSecurityLifeCycle()
		c.GetImplID()
		c.GetBootSeed()
		c.GetCertificationReference()
		c.GetNonce()
		c.GetInstID()
		c.GetVSI()
	})
	rec(func() {
		l, err := c.GetSoftwareComponents()
		if err == nil {
			for _, sc := range l {
				sc.Validate()
				sc.GetMeasurementType()
				sc.GetMeasurementValue()
				sc.GetVersion()
				sc.GetSignerID()
				sc.GetMeasurementDesc()
			}
		}
	})
	rec(func() { psatoken.EncodeClaimsToCBOR(c) })
	rec(func() { psatoken.EncodeClaimsToJSON(c) })
	rec(func() { psatoken.ValidateAndEncodeClaimsToCBOR(c) })
	rec(func() { psatoken.ValidateAndEncodeClaimsToJSON(c) })
}

func (w *evWorld) followEvidence(e *psatoken.Evidence, out *[]string) {
	rec := func(f func()) {
		if safely(f) {
			*out = append(*out, "panic")
		} else {
			*out = append(*out, "ok")
		}
	}
	if e == nil {
		return
	}
	followClaims(e.Claims, out)
	// "verified against any key": a key of every algorithm the ring holds (so that the token's own algorithm meets a key
	// of its family whatever it is), each one twice in a row and once more after the others - a verifier, key or
	// outcome remembered from one call must not make a later call on the same Evidence panic
	for round := 0; round < 2; round++ {
		for _, alg := range sortedAlgs(w.kr) {
			k := "k1"
			if alg == "PS256" {
				k = "k2"
			}
			kp, ok := w.kr[alg][k]
			if !ok {
				continue
			}
			rec(func() { e.Verify(kp.pub) })
			if round == 0 {
				rec(func() { e.Verify(kp.pub) })
			}
		}
		rec(func() { e.Verify(nil) })
		rec(func() { e.Verify("not a key") })
	}
	rec(func() { e.MarshalJSON() })
	rec(func() { e.GetInstanceID(); e.GetImplementationID() })
}

func mkEntries(w *evWorld) []entry {
	claimsRes := func(c psatoken.IClaims, err error) (any, error) {
		if err != nil {
			return nil, err
		}
		return c, nil
	}
	es := []entry{
		{"DecodeEvidenceFromCOSE", "cose", func(b []byte) (any, error) { e, err := psatoken.DecodeEvidenceFromCOSE(b); return e, err }},
		{"DecodeAndValidateEvidenceFromCOSE", "cose", func(b []byte) (any, error) { e, err := psatoken.DecodeAndValidateEvidenceFromCOSE(b); return e, err }},
		{"Evidence.UnmarshalCOSE", "cose", func(b []byte) (any, error) { e := &psatoken.Evidence{}; err := e.UnmarshalCOSE(b); return e, err }},
		{"DecodeClaimsFromCBOR", "cbor", func(b []byte) (any, error) { return claimsRes(psatoken.DecodeClaimsFromCBOR(b)) }},
		{"DecodeAndValidateClaimsFromCBOR", "cbor", func(b []byte) (any, error) { return claimsRes(psatoken.DecodeAndValidateClaimsFromCBOR(b)) }},
		{"DecodeClaimsFromJSON", "json", func(b []byte) (any, error) { return claimsRes(psatoken.DecodeClaimsFromJSON(b)) }},
		{"DecodeAndValidateClaimsFromJSON", "json", func(b []byte) (any, error) { return claimsRes(psatoken.DecodeAndValidateClaimsFromJSON(b)) }},
		{"DecodeJSONClaims", "json", func(b []byte) (any, error) { return claimsRes(psatoken.DecodeJSONClaims(b)) }},
		{"DecodeUnvalidatedJSONClaims", "json", func(b []byte) (any, error) { return claimsRes(psatoken.DecodeUnvalidatedJSONClaims(b)) }},
		{"P1Claims.UnmarshalCBOR", "cbor", func(b []byte) (any, error) {
			c := blankClaims("P1", psatoken.Profile1Name)
			return c, c.(cborUnmarshaler).UnmarshalCBOR(b)
		}},
		{"P2Claims.UnmarshalCBOR", "cbor", func(b []byte) (any, error) {
			c := blankClaims("P2", psatoken.Profile2Name)
			return c, c.(cborUnmarshaler).UnmarshalCBOR(b)
		}},
		{"P1Claims.UnmarshalJSON", "json", func(b []byte) (any, error) {
			c := blankClaims("P1", psatoken.Profile1Name)
			return c, json.Unmarshal(b, c)
		}},
		{"P2Claims.UnmarshalJSON", "json", func(b []byte) (any, error) {
			c := blankClaims("P2", psatoken.Profile2Name)
			return c, json.Unmarshal(b, c)
		}},
		{"SwComponents.UnmarshalCBOR", "cbor", func(b []byte) (any, error) {
			c := &psatoken.SwComponents[*psatoken.SwComponent]{}
			err := c.UnmarshalCBOR(b)
			if err == nil {
				c.Validate()
				c.Values()
				c.IsEmpty()
				c.MarshalCBOR()
				c.MarshalJSON()
			}
			return nil, err
		}},
		{"SwComponents.UnmarshalJSON", "json", func(b []byte) (any, error) {
			c := &psatoken.SwComponents[*psatoken.SwComponent]{}
			err := c.UnmarshalJSON(b)
			if err == nil {
				c.Validate()
				c.Values()
				c.MarshalCBOR()
				c.MarshalJSON()
			}
			return nil, err
		}},
		{"X1Claims.UnmarshalCBOR", "cbor", func(b []byte) (any, error) { c := NewX1Claims(); return c, c.(cborUnmarshaler).UnmarshalCBOR(b) }},
		{"X2Claims.UnmarshalCBOR", "cbor", func(b []byte) (any, error) { c := NewX2Claims(); return c, c.(cborUnmarshaler).UnmarshalCBOR(b) }},
		{"X1Claims.UnmarshalJSON", "json", func(b []byte) (any, error) { c := NewX1Claims(); return c, json.Unmarshal(b, c) }},
		{"X2Claims.UnmarshalJSON", "json", func(b []byte) (any, error) { c := NewX2Claims(); return c, json.Unmarshal(b, c) }},
		{"PopulateStructFromCBOR(top)", "cbor", func(b []byte) (any, error) { return nil, encoding.PopulateStructFromCBOR(xdm, b, &ShTop{}) }},
		{"PopulateStructFromCBOR(reader)", "cbor", func(b []byte) (any, error) {
			return nil, encoding.PopulateStructFromCBOR(xdm, b, reflect.New(readerTargetType).Interface())
		}},
		{"PopulateStructFromJSON(top)", "json", func(b []byte) (any, error) { return nil, encoding.PopulateStructFromJSON(b, &ShTop{}) }},
		{"PopulateStructFromJSON(iface)", "json", func(b []byte) (any, error) {
			return nil, encoding.PopulateStructFromJSON(b, &ShWithIface{ShIface: &ShLeaf{}})
		}},
	}
	_ = w
	return es
}

var spareBuf = make([]byte, 2<<20)

// codecProbe serialises a fixed extension-profile value to CBOR and JSON and populates fresh values from both: "ok" when
// all of it works and gives the bytes / values of the first time, "panic" or "diff" otherwise.
var codecProbeRef [2][]byte

func codecProbe() (out string) {
	out = "ok"
	defer func() {
		if recover() != nil {
			out = "panic"
		}
	}()
	one, txt := 7, "probe"
	val := &ShWithIface{W1: &one, ShIface: &ShLeaf{L1: &one}, W2: &txt}
	cb, err := encoding.SerializeStructToCBOR(xem, val)
	if err != nil {
		return "diff"
	}
	jb, err := encoding.SerializeStructToJSON(val)
	if err != nil {
		return "diff"
	}
	if codecProbeRef[0] == nil {
		codecProbeRef = [2][]byte{append([]byte{}, cb...), append([]byte{}, jb...)}
	}
	if !bytes.Equal(cb, codecProbeRef[0]) || !bytes.Equal(jb, codecProbeRef[1]) {
		return "diff"
	}
	back := &ShWithIface{ShIface: &ShLeaf{}}
	if err := encoding.PopulateStructFromCBOR(xdm, append([]byte{}, cb...), back); err != nil || back.W1 == nil || *back.W1 != 7 {
		return "diff"
	}
	back2 := &ShWithIface{ShIface: &ShLeaf{}}
	if err := encoding.PopulateStructFromJSON(append([]byte{}, jb...), back2); err != nil || back2.W2 == nil || *back2.W2 != "probe" {
		return "diff"
	}
	return "ok"
}

// withComponents returns the CBOR token tok with its software-components array replaced by n copies of item.
func withComponents(tok []byte, n int, item []byte) []byte {
	root := cloneNode(rawNode(tok))
	for i := 0; i+1 < len(root.Items); i += 2 {
		if k, ok := root.Items[i].IntVal(); ok && (k == -75006 || k == 2399) {
			e := &cborx.Enc{}
			e.Arr(n)
			for j := 0; j < n; j++ {
				e.Raw(item)
			}
			root.Items[i+1] = &cborx.Node{Major: 7, AI: 99, Bytes: e.Bytes()}
			return encTree(root)
		}
	}
	return nil
}

func init() {
	drivers["bytes-fuzz"] = func(a *Args) {
		var plan bytesPlan
		loadJSON(a.In, &plan)
		d := loadDomains(a.In2)
		cc := Conc{r: a.Rand()}
		w := newEvWorld([]string{"ES256", "EdDSA", "PS256"}, cc, d)
		entries := mkEntries(w)
		t := NewTracer(a.Out)
		thorough := a.Tier == "thorough"
		b := 0
		bykind := map[string]int{}
		present := func(format, kind string, in []byte) {
			for _, en := range entries {
				if en.fmt != format && !(format == "cbor" && en.fmt == "cose" && cc.r.Intn(8) == 0) && !(format == "cose" && en.fmt == "cbor" && cc.r.Intn(8) == 0) {
					continue
				}
				ev := bytesEv{B: b, Op: "Bytes", Entry: en.name, Kind: kind, Len: len(in), Follow: []string{}}
				if len(in) <= 120 {
					ev.Hex = hexs(in)
				}
				if k := guardedCase(b); k == "skip" {
					b++
					continue
				} else if k != "" {
					ev.Out = k
				} else {
					var res any
					var err error
					t0 := time.Now()
					// the input as an exactly-sized slice, or as a short slice of a large receive buffer: what is
					// allocated may depend on the bytes present, not on the capacity behind them
					arg := append([]byte{}, in...)
					if b%2 == 1 && len(in) <= len(spareBuf) {
						copy(spareBuf, in)
						arg = spareBuf[:len(in)]
					}
					kb, pan := measure(func() { res, err = en.run(arg) })
					ev.Ms = int(time.Since(t0).Milliseconds())
					ev.AllocKB = kb
					switch {
					case pan:
						ev.Out = "panic"
					case err != nil:
						ev.Out = "err"
					default:
						ev.Out = "ok"
						switch r := res.(type) {
						case *psatoken.Evidence:
							w.followEvidence(r, &ev.Follow)
						case psatoken.IClaims:
							followClaims(r, &ev.Follow)
						}
					}
					// whatever the input did (accepted or refused), the codec still serialises and populates a fixed valid value
					// exactly as before: nothing an input leaves behind may make a later call panic or change its result
					ev.Follow = append(ev.Follow, codecProbe())
				}
				t.Emit(ev, true, ev.Out != "err")
				b++
				bykind[kind]++
			}
		}
		// ---- seeds ----
		type seed struct {
			name   string
			format string
			bytes  []byte
		}
		seeds := []seed{}
		for _, p := range []string{"P1", "P2"} {
			for _, kind := range []string{"full", "minimal", "nosw"} {
				if p == "P2" && kind == "nosw" {
					continue
				}
				s := d.base(p, kind)
				seeds = append(seeds, seed{p + ":" + kind, "cbor", cc.DocCBOR(s)})
				seeds = append(seeds, seed{p + ":" + kind + ":json", "json", cc.DocJSON(s)})
			}
		}
		{
			s := d.base("P2", "full")
			s.Vals["profile"] = V{K: "prof", S: []any{X2Name}}
			seeds = append(seeds, seed{"X2:full", "cbor", cc.DocCBOR(s)})
		}
		// signed seeds: one per signature family, so that every follow-up Verify meets a token of its key's algorithm
		for _, sa := range [][2]string{{"cA", "ES256"}, {"cB", "EdDSA"}} {
			id, alg := sa[0], sa[1]
			sig, ok := w.goodSig[sigID{"k1", alg, id}]
			if !ok {
				fatal("no signature for %s/%s", alg, id)
			}
			seeds = append(seeds, seed{"cose:" + id, "cose", assembleSign1(protectedBytes(alg), w.enc[id], false, sig)})
		}
		if sig, ok := w.goodSig[sigID{"k2", "PS256", "cA"}]; ok {
			present("cose", "seed", assembleSign1(protectedBytes("PS256"), w.enc["cA"], false, sig))
		} else {
			fatal("no PS256 signature")
		}
		for _, sd := range seeds {
			present(sd.format, "seed", sd.bytes)
			// truncation at every offset
			for n := 0; n < len(sd.bytes); n++ {
				if thorough || n < 24 || n%3 == 0 {
					present(sd.format, "trunc", sd.bytes[:n])
				}
			}
			if sd.format == "json" {
				var tree any
				dec := json.NewDecoder(bytes.NewReader(sd.bytes))
				dec.UseNumber()
				dec.Decode(&tree)
				// replace every member (top level and inside components) by each JSON replacement; drop / duplicate members
				top := tree.(map[string]any)
				for k := range top {
					for _, r := range plan.JSONReplacements {
						m := map[string]any{}
						for k2, v2 := range top {
							m[k2] = v2
						}
						m[k] = json.RawMessage(r)
						out, _ := json.Marshal(m)
						present("json", "json-replace", out)
					}
					// duplicate member (textually)
					kb, _ := json.Marshal(k)
					vb, _ := json.Marshal(top[k])
					dup := append([]byte("{"), kb...)
					dup = append(dup, ':')
					dup = append(dup, vb...)
					dup = append(dup, ',')
					dup = append(dup, sd.bytes[1:]...)
					present("json", "json-dup", dup)
				}
				if comps, ok := top["psa-software-components"].([]any); ok && len(comps) > 0 {
					for _, r := range plan.JSONReplacements {
						m := map[string]any{}
						for k2, v2 := range top {
							m[k2] = v2
						}
						m["psa-software-components"] = []any{json.RawMessage(r)}
						out, _ := json.Marshal(m)
						present("json", "json-comp", out)
						cm := map[string]any{}
						for k2, v2 := range comps[0].(map[string]any) {
							cm[k2] = v2
						}
						cm["measurement-value"] = json.RawMessage(r)
						m["psa-software-components"] = []any{cm}
						out, _ = json.Marshal(m)
						present("json", "json-comp", out)
					}
				}
				for _, r := range plan.JSONReplacements {
					present("json", "json-top", []byte(r))
				}
				continue
			}
			root := rawNode(sd.bytes)
			var nodes []*cborx.Node
			allNodes(root, &nodes)
			// the COSE payload is a nested CBOR document: mutate inside it too
			type target struct {
				root  *cborx.Node
				nodes []*cborx.Node
				wrap  func([]byte) []byte
			}
			targets := []target{{root, nodes, func(x []byte) []byte { return x }}}
			if sd.format == "cose" {
				pb, _ := payloadBytes(sd.bytes)
				proot := rawNode(pb)
				var pn []*cborx.Node
				allNodes(proot, &pn)
				sig := root.Items[0].Items[3].Bytes
				prot := root.Items[0].Items[0].Bytes
				targets = append(targets, target{proot, pn, func(x []byte) []byte { return assembleSign1(prot, x, false, sig) }})
			}
			for _, tg := range targets {
				for ni := range tg.nodes {
					// every replacement at every node
					for _, r := range plan.Replacements {
						c := cloneNode(tg.root)
						var cn []*cborx.Node
						allNodes(c, &cn)
						*cn[ni] = *replacement(r, cn[ni], cc)
						present(sd.format, "replace:"+r, tg.wrap(encTree(c)))
					}
					// same-type boundary values
					sameType := func(kind string, nn *cborx.Node) {
						c := cloneNode(tg.root)
						var cn []*cborx.Node
						allNodes(c, &cn)
						*cn[ni] = *nn
						present(sd.format, kind, tg.wrap(encTree(c)))
					}
					switch tg.nodes[ni].Major {
					case 0, 1:
						for _, v := range plan.IntBoundaries {
							sameType("boundary:int", intNode(v))
						}
					case 2, 3:
						for _, ln := range plan.LenBoundaries {
							e := &cborx.Enc{}
							if tg.nodes[ni].Major == 2 {
								e.Bstr(cc.bytes(ln, 1))
							} else {
								e.Tstr(strings.Repeat("7", ln))
							}
							sameType("boundary:len", rawNode(e.Bytes()))
						}
					}
					// container edits
					if tg.nodes[ni].Major == 4 || tg.nodes[ni].Major == 5 {
						step := 1
						if tg.nodes[ni].Major == 5 {
							step = 2
						}
						for _, ed := range plan.ContainerEdits {
							c := cloneNode(tg.root)
							var cn []*cborx.Node
							allNodes(c, &cn)
							n := cn[ni]
							if len(n.Items) < step {
								continue
							}
							switch ed {
							case "dropFirst":
								n.Items = n.Items[step:]
							case "dropLast":
								n.Items = n.Items[:len(n.Items)-step]
							case "dupFirst":
								n.Items = append(append([]*cborx.Node{}, n.Items[:step]...), n.Items...)
							case "dupLast":
								n.Items = append(n.Items, n.Items[len(n.Items)-step:]...)
							case "swapFirstTwo":
								if len(n.Items) >= 2*step {
									for k := 0; k < step; k++ {
										n.Items[k], n.Items[step+k] = n.Items[step+k], n.Items[k]
									}
								}
							case "appendNull":
								for k := 0; k < step; k++ {
									n.Items = append(n.Items, rawNode([]byte{0xf6}))
								}
							case "appendSelf":
								if step == 2 {
									n.Items = append(n.Items, rawNode([]byte{0x18, 0x63}))
								}
								n.Items = append(n.Items, cloneNode(tg.nodes[ni]))
							case "nullElement":
								n.Items[len(n.Items)-1] = rawNode([]byte{0xf6})
							}
							present(sd.format, "edit:"+ed, tg.wrap(encTree(c)))
						}
					}
					// every value of the node's head byte (quick: a spread of 40 values beyond the first nodes)
					off := tg.nodes[ni].Start
					enc := encTree(tg.root)
					for v := 0; v < 256; v++ {
						if !thorough && ni >= 4 && v%7 != 0 && v < 0x40 {
							continue
						}
						if !thorough && ni >= 4 && v >= 0x40 && v%5 != 0 {
							continue
						}
						x := append([]byte{}, enc...)
						if off < len(x) {
							x[off] = byte(v)
							present(sd.format, "headbyte", tg.wrap(x))
						}
					}
				}
			}
		}
		// ---- hostile length headers ----
		declared := map[string]uint64{"255": 255, "256": 256, "65535": 65535, "65536": 65536, "2^24": 1 << 24, "2^31-1": 1<<31 - 1, "2^32-1": 1<<32 - 1, "2^63": 1 << 63}
		base := baseEntries(d.base("P2", "full"))
		for _, h := range plan.Hostile {
			major, width := byte(h["major"].(float64)), int(h["width"].(float64))
			e := &cborx.Enc{}
			e.HeadW(major, declared[h["declared"].(string)], width)
			for k := 0; k < int(h["following"].(float64)); k++ {
				e.Uint(uint64(k))
			}
			hb := e.Bytes()
			var in []byte
			format := "cbor"
			switch h["place"].(string) {
			case "top":
				in = hb
			case "coseElement":
				x := &cborx.Enc{}
				x.Tag(18).Arr(4).Bstr(protectedBytes("ES256")).Map(0).Raw(hb)
				in, format = x.Bytes(), "cose"
			case "payload":
				in, format = assembleSign1(protectedBytes("ES256"), hb, false, w.goodSig[sigID{"k1", "ES256", "cA"}]), "cose"
			case "claimValue":
				x := &cborx.Enc{}
				x.Map(2).Int(265).Tstr(psatoken.Profile2Name).Int(2396).Raw(hb)
				in = x.Bytes()
			case "swEntry":
				x := &cborx.Enc{}
				x.Map(2).Int(265).Tstr(psatoken.Profile2Name).Int(2399).Arr(1).Raw(hb)
				in = x.Bytes()
			case "componentField":
				x := &cborx.Enc{}
				x.Map(2).Int(265).Tstr(psatoken.Profile2Name).Int(2399).Arr(1).Map(1).Int(2).Raw(hb)
				in = x.Bytes()
			}
			present(format, "hostile", in)
		}
		_ = base
		// ---- nesting ----
		for _, nst := range plan.Nesting {
			kind, depth, place := nst["kind"].(string), int(nst["depth"].(float64)), nst["place"].(string)
			var inner []byte
			format := "cbor"
			switch kind {
			case "array":
				inner = append(bytes.Repeat([]byte{0x81}, depth), 0x01)
			case "map":
				inner = append(bytes.Repeat([]byte{0xa1, 0x01}, depth), 0x01)
			case "tag":
				inner = append(bytes.Repeat([]byte{0xc6}, depth), 0x01)
			case "bstrWrap":
				inner = []byte{0x01}
				for k := 0; k < depth && len(inner) < 60000; k++ {
					e := &cborx.Enc{}
					e.Bstr(inner)
					inner = e.Bytes()
				}
			case "jsonArray":
				inner, format = []byte(strings.Repeat("[", depth)+strings.Repeat("]", depth)), "json"
			case "jsonObject":
				inner, format = []byte(strings.Repeat(`{"a":`, depth)+"1"+strings.Repeat("}", depth)), "json"
			}
			var in []byte
			switch {
			case format == "json" && place == "top":
				in = inner
			case format == "json":
				in = []byte(`{"psa-profile":"PSA_IOT_PROFILE_1","psa-nonce":` + string(inner) + `,"unknown":` + string(inner) + `}`)
			case place == "top":
				in = inner
			case place == "payload":
				in, format = assembleSign1(protectedBytes("ES256"), inner, false, w.goodSig[sigID{"k1", "ES256", "cA"}]), "cose"
			default:
				x := &cborx.Enc{}
				x.Map(3).Int(265).Tstr(psatoken.Profile2Name).Int(2396).Raw(inner).Int(9999).Raw(inner)
				in = x.Bytes()
			}
			present(format, "nest:"+kind, in)
		}
		// ---- big but honest inputs (memory must stay proportional) ----
		for _, n := range plan.BigSizes {
			e := &cborx.Enc{}
			e.Map(n)
			for k := 0; k < n; k++ {
				e.Int(int64(100000 + k)).Uint(1)
			}
			if len(e.Bytes()) <= 1<<20 {
				present("cbor", "big-map", e.Bytes())
			}
			e2 := &cborx.Enc{}
			e2.Map(1).Int(2396).Bstr(make([]byte, n))
			present("cbor", "big-bstr", e2.Bytes())
			// long component lists in an otherwise valid token: invalid entries (empty map, null, integer) and valid ones;
			// the whole input stays within 64 KiB
			for _, p := range []string{"P1", "P2"} {
				base := cc.DocCBOR(d.base(p, "full"))
				okComp := &cborx.Enc{}
				okComp.Map(2).Int(2).Bstr(cc.bytes(32, 2)).Int(5).Bstr(cc.bytes(32, 2))
				for name, item := range map[string][]byte{"empty": {0xa0}, "null": {0xf6}, "int": {0x01}, "ok": okComp.Bytes()} {
					m := n
					if m*len(item) > 60000 {
						m = 60000 / len(item)
					}
					if tok := withComponents(base, m, item); tok != nil {
						present("cbor", "big-components:"+name, tok)
						present("cose", "big-components:"+name, assembleSign1(protectedBytes("ES256"), tok, false, w.goodSig[sigID{"k1", "ES256", "cA"}]))
					}
					var doc map[string]any
					if json.Unmarshal(cc.DocJSON(d.base(p, "full")), &doc) == nil {
						jitem := map[string]string{"empty": "{}", "null": "null", "int": "1",
							"ok": `{"measurement-value":"AAAAAAAAAAAAAAAAAAAAAAAAAAAAAAAAAAAAAAAAAAA=","signer-id":"AAAAAAAAAAAAAAAAAAAAAAAAAAAAAAAAAAAAAAAAAAA="}`}[name]
						mj := n
						if mj*(len(jitem)+1) > 60000 {
							mj = 60000 / (len(jitem) + 1)
						}
						doc["psa-software-components"] = json.RawMessage("[" + strings.TrimSuffix(strings.Repeat(jitem+",", mj), ",") + "]")
						if out, err := json.Marshal(doc); err == nil {
							present("json", "big-components:"+name, out)
						}
					}
				}
			}
			var sb strings.Builder
			sb.WriteString("{")
			for k := 0; k < n && sb.Len() < 1<<20; k++ {
				if k > 0 {
					sb.WriteString(",")
				}
				fmt.Fprintf(&sb, `"k%d":1`, k)
			}
			sb.WriteString("}")
			present("json", "big-object", []byte(sb.String()))
			present("json", "big-string", []byte(`{"psa-nonce":"`+strings.Repeat("A", n)+`"}`))
		}
		// ---- seeded random byte strings and multi-byte edits of the seeds ----
		nr := 3000
		if thorough {
			nr = 200000
		}
		for k := 0; k < nr; k++ {
			sd := seeds[cc.r.Intn(len(seeds))]
			x := append([]byte{}, sd.bytes...)
			for j := 0; j < 1+cc.r.Intn(5); j++ {
				pos := cc.r.Intn(len(x))
				switch cc.r.Intn(3) {
				case 0:
					x[pos] = byte(cc.r.Intn(256))
				case 1:
					x = append(x[:pos], x[pos+1:]...)
				default:
					x = append(x[:pos], append([]byte{byte(cc.r.Intn(256))}, x[pos:]...)...)
				}
				if len(x) == 0 {
					x = []byte{0}
				}
			}
			present(sd.format, "edit", x)
		}
		t.Close(map[string]any{"by_kind": bykind})
	}
}

func sortedAlgs(kr keyring) []string {
	as := make([]string, 0, len(kr))
	for a := range kr {
		as = append(as, a)
	}
	sort.Strings(as)
	return as
}
