package main

// Drivers for package encoding: the hand-written CBOR map reader over every short input of
// a header-byte alphabet (C05 / C06 / C15), and the struct-shape family (C15).

import (
	"encoding/json"
	"reflect"
	"runtime"

	cbor "github.com/fxamacker/cbor/v2"
	"github.com/veraison/psatoken/encoding"
)

type orcKey struct {
	OK bool `json:"ok"`
	V  int  `json:"v"`
	N  int  `json:"n"`
}
type orcVal struct {
	OK bool `json:"ok"`
	N  int  `json:"n"`
}

type readerEv struct {
	B       int      `json:"b"`
	I       int      `json:"i"`
	Op      string   `json:"op"`
	Input   []int    `json:"input"`
	Key     []orcKey `json:"key"` // item oracle: an integer key starting at byte p (1-based), by the CBOR library
	Val     []orcVal `json:"val"`
	Out     string   `json:"out"`  // ok err panic
	Keys    []int    `json:"keys"` // the known fields that were populated
	AllocKB int      `json:"allocKB"`
}

// readerTarget: optional fields for the keys 0..23, each accepting any value.
var readerTargetType = func() reflect.Type {
	fs := []reflect.StructField{}
	raw := reflect.TypeOf(cbor.RawMessage(nil)) // not a pointer: null / undefined must still count as populated
	for k := 0; k < 24; k++ {
		fs = append(fs, reflect.StructField{Name: "F" + itoa(k), Type: raw,
			Tag: reflect.StructTag(`cbor:"` + itoa(k) + `,keyasint,omitempty" json:"f` + itoa(k) + `,omitempty"`)})
	}
	return reflect.StructOf(fs)
}()

func itoa(i int) string { b, _ := json.Marshal(i); return string(b) }

func measure(f func()) (allocKB int, panicked bool) {
	var m0, m1 runtime.MemStats
	runtime.ReadMemStats(&m0)
	panicked = safely(f)
	runtime.ReadMemStats(&m1)
	return int((m1.TotalAlloc - m0.TotalAlloc) / 1024), panicked
}

func observeReader(b int, input []byte) readerEv {
	ev := readerEv{B: b, Op: "Reader", Input: []int{}, Key: []orcKey{}, Val: []orcVal{}, Keys: []int{}}
	for _, x := range input {
		ev.Input = append(ev.Input, int(x))
	}
	surrogate := map[int]int{}
	for p := 0; p <= len(input)+1; p++ {
		k, v := orcKey{}, orcVal{}
		if p < len(input) {
			var key int
			if rest, err := xdm.UnmarshalFirst(input[p:], &key); err == nil {
				// beyond TLC's integers: a surrogate, one per distinct value, so that equal keys stay equal
				if key < -1000000000 || key > 1000000000 {
					sv, seen := surrogate[key]
					if !seen {
						sv = 2000000000 + len(surrogate)
						surrogate[key] = sv
					}
					key = sv
				}
				k = orcKey{OK: true, V: key, N: len(input) - p - len(rest)}
			}
			var raw cbor.RawMessage
			if rest, err := xdm.UnmarshalFirst(input[p:], &raw); err == nil {
				v = orcVal{OK: true, N: len(input) - p - len(rest)}
			}
		}
		ev.Key = append(ev.Key, k)
		ev.Val = append(ev.Val, v)
	}
	if k := guardedCase(b); k != "" {
		ev.Out = k // "skip": executed by an earlier worker
		return ev
	}
	dest := reflect.New(readerTargetType)
	var err error
	arg := append([]byte{}, input...)
	if b%2 == 1 { // a short slice of a large receive buffer
		copy(spareBuf, input)
		arg = spareBuf[:len(input)]
	}
	kb, pan := measure(func() { err = encoding.PopulateStructFromCBOR(xdm, arg, dest.Interface()) })
	ev.AllocKB = kb
	switch {
	case pan:
		ev.Out = "panic"
	case err != nil:
		ev.Out = "err"
	default:
		ev.Out = "ok"
		for k := 0; k < 24; k++ {
			if dest.Elem().Field(k).Len() > 0 {
				ev.Keys = append(ev.Keys, k)
			}
		}
	}
	return ev
}

var readerAlphabet = []byte{0x00, 0x01, 0x17, 0x18, 0xa0, 0xa1, 0xa2, 0xb8, 0xb9, 0xba, 0xbb, 0xbc, 0xbf, 0xc0, 0xd8, 0xff}

// values the exhaustive alphabet lacks: null, undefined, negative, empty bytes / text / array, false, break-less float
var readerExtras = []byte{0xf6, 0xf7, 0x20, 0x38, 0x40, 0x60, 0x80, 0xf4, 0xf9, 0x1b, 0x3b}

func init() {
	drivers["codec-reader"] = func(a *Args) {
		t := NewTracer(a.Out)
		b := 0
		maxLen := 4
		if a.Tier == "thorough" {
			maxLen = 5
		}
		if a.N > 0 {
			maxLen = a.N
		}
		var rec func(prefix []byte)
		rec = func(prefix []byte) {
			ev := observeReader(b, prefix)
			if ev.Out != "skip" {
				t.Emit(ev, true, ev.Out != "err" || len(prefix) >= 3)
			}
			b++
			if len(prefix) == maxLen {
				return
			}
			for _, x := range readerAlphabet {
				rec(append(append([]byte{}, prefix...), x))
			}
		}
		rec([]byte{})
		// longer inputs, seeded: the same alphabet plus arbitrary bytes
		cc := Conc{r: a.Rand()}
		nr := 20000
		if a.Tier == "thorough" {
			nr = 300000
		}
		for k := 0; k < nr; k++ {
			n := 5 + cc.r.Intn(8)
			in := make([]byte, n)
			for i := range in {
				if c := cc.r.Intn(10); c < 2 {
					in[i] = byte(cc.r.Intn(256))
				} else if c == 2 {
					in[i] = readerExtras[cc.r.Intn(len(readerExtras))]
				} else {
					in[i] = readerAlphabet[cc.r.Intn(len(readerAlphabet))]
				}
			}
			ev := observeReader(b, in)
			if ev.Out != "skip" {
				t.Emit(ev, true, true)
			}
			b++
		}
		t.Close(nil)
	}
}
