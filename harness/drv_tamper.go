package main

// C02: a modified token or a different key never verifies. Tokens are signed for real
// (every algorithm go-cose can sign with, fresh keys), then every single-bit flip, every
// splice of protected / payload / signature between tokens, every truncation and seeded
// random edits are decoded and verified with the right and with a wrong key. What was
// actually presented is projected by the independent reader.

import (
	"bytes"
	"crypto"
	"crypto/ecdsa"
	"crypto/ed25519"
	"crypto/rand"
	"crypto/rsa"

	"verif/harness/cborx"

	"github.com/veraison/go-cose"
	"github.com/veraison/psatoken"
)

type tamperEv struct {
	B       int             `json:"b"`
	I       int             `json:"i"`
	Op      string          `json:"op"`
	Kind    string          `json:"kind"`
	Alg     string          `json:"alg"`     // algorithm of the honest token that was tampered with
	TI      tokInfo         `json:"ti"`      // projection of the presented bytes
	ProtStd string          `json:"protStd"` // algorithm whose standard protected-header bytes these are | "none" | "alt"
	DecOK   bool            `json:"decOK"`
	Claims  string          `json:"claims"`
	Ver     map[string]bool `json:"ver"`    // key id -> verification succeeded
	BadVer  map[string]bool `json:"badVer"` // malformed / wrong-type key -> verification SUCCEEDED (an error or a panic is "did not")
	Bound   bool            `json:"bound"`  // the claims exposed are the decoding of the payload bytes that were presented
	Pan     bool            `json:"panicked"`
}

func payloadBytes(tok []byte) ([]byte, bool) {
	n, _, err := cborx.ParseFirst(tok)
	if err != nil || n.Major != 6 || len(n.Items) != 1 || n.Items[0].Major != 4 || len(n.Items[0].Items) != 4 || n.Items[0].Items[2].Major != 2 {
		return nil, false
	}
	return n.Items[0].Items[2].Bytes, true
}

func (w *evWorld) protStd(b []byte) string {
	if len(b) == 0 {
		return "none"
	}
	for _, a := range algNames {
		if bytes.Equal(b, protectedBytes(a)) {
			return a
		}
	}
	return "alt"
}

func rawProtected(tok []byte) []byte {
	n, _, err := cborx.ParseFirst(tok)
	if err != nil || n.Major != 6 || len(n.Items) != 1 || n.Items[0].Major != 4 || len(n.Items[0].Items) < 1 || n.Items[0].Items[0].Major != 2 {
		return nil
	}
	return n.Items[0].Items[0].Bytes
}

func init() {
	drivers["ev-tamper"] = func(a *Args) {
		d := loadDomains(a.In)
		cc := Conc{r: a.Rand()}
		algs := []string{"ES256", "EdDSA", "PS256"}
		if a.Tier == "thorough" {
			algs = algNames
		}
		w := newEvWorld(algNames, cc, d)
		t := NewTracer(a.Out)
		b := 0
		bykind := map[string]int{}
		present := func(kind, alg string, tok []byte) {
			ev := tamperEv{B: b, Op: "Tamper", Kind: kind, Alg: alg, TI: w.absToken(tok), Ver: map[string]bool{"k1": false, "k2": false}, BadVer: map[string]bool{}, Claims: "nil"}
			ev.ProtStd = w.protStd(rawProtected(tok))
			var e *psatoken.Evidence
			ev.Pan = safely(func() {
				var err error
				e, err = psatoken.DecodeEvidenceFromCOSE(append([]byte{}, tok...))
				ev.DecOK = err == nil && e != nil
				if ev.DecOK {
					ev.Claims = w.claimsID(e.Claims)
					if pb, ok := payloadBytes(tok); ok {
						if c2, err2 := psatoken.DecodeClaimsFromCBOR(pb); err2 == nil {
							ev.Bound = jsonEq(allGetters(c2), allGetters(e.Claims)) && jsonEq(AbsClaims(c2), AbsClaims(e.Claims))
						}
					}
					for _, k := range []string{"k1", "k2"} {
						ev.Ver[k] = e.Verify(w.kr[alg][k].pub) == nil
					}
				}
			})
			// keys that are no public key of the algorithm at all: wrong length, nil, another key type. Whatever the
			// library does with them (an error; go-cose / crypto may even panic), it must not report success.
			if ev.DecOK && (kind == "honest" || b%40 == 0) {
				good, _ := w.kr[alg]["k1"].pub.(ed25519.PublicKey)
				bad := map[string]crypto.PublicKey{
					"nil": nil, "ed25519-nil": ed25519.PublicKey(nil), "ed25519-empty": ed25519.PublicKey{},
					"ed25519-31": ed25519.PublicKey(make([]byte, 31)), "ed25519-33": ed25519.PublicKey(make([]byte, 33)),
					"ecdsa-nil": (*ecdsa.PublicKey)(nil), "rsa-nil": (*rsa.PublicKey)(nil), "ecdsa-zero": &ecdsa.PublicKey{},
					"rsa-zero": &rsa.PublicKey{}, "bytes": []byte{1, 2, 3}, "string": "key",
				}
				if good != nil {
					bad["ed25519-trunc"] = good[:31]
					bad["ed25519-ext"] = append(append(ed25519.PublicKey{}, good...), 0)
				}
				for _, other := range algNames { // a well-formed key of another algorithm family
					if other[:2] != alg[:2] {
						bad["other:"+other] = w.kr[other]["k1"].pub
						break
					}
				}
				for name, pk := range bad {
					okv := false
					safely(func() { okv = e.Verify(pk) == nil })
					ev.BadVer[name] = okv
				}
			}
			t.Emit(ev, true, true)
			b++
			bykind[kind]++
		}
		for _, alg := range algs {
			for _, cid := range []string{"cA", "cB"} {
				// an honest token, made by the library itself
				e := &psatoken.Evidence{}
				if err := e.SetClaims(w.claims[cid]); err != nil {
					fatal("SetClaims: %v", err)
				}
				w.curP = cid
				tok, err := e.ValidateAndSign(w.signer("good", "k1", alg))
				if err != nil {
					fatal("ValidateAndSign(%s): %v", alg, err)
				}
				present("honest", alg, tok)
				// (a) every single-bit flip
				for i := 0; i < len(tok)*8; i++ {
					x := append([]byte{}, tok...)
					x[i/8] ^= 1 << (i % 8)
					present("flip", alg, x)
				}
				// (c) every truncation, and extension
				for n := 0; n < len(tok); n++ {
					if n%3 == 0 || a.Tier == "thorough" {
						present("trunc", alg, tok[:n])
					}
				}
				present("extend", alg, append(append([]byte{}, tok...), 0x00))
				// (d) seeded random multi-byte edits
				nr := 400
				if a.Tier == "thorough" {
					nr = 8000
				}
				for k := 0; k < nr; k++ {
					x := append([]byte{}, tok...)
					for j := 0; j < 1+cc.r.Intn(4); j++ {
						pos := cc.r.Intn(len(x))
						switch cc.r.Intn(3) {
						case 0:
							x[pos] = byte(cc.r.Intn(256))
						case 1:
							x = append(x[:pos], x[pos+1:]...)
						default:
							x = append(x[:pos], append([]byte{byte(cc.r.Intn(256))}, x[pos:]...)...)
						}
						if len(x) == 0 {
							x = []byte{0}
						}
					}
					present("edit", alg, x)
				}
			}
		}
		// (b) splices: protected x payload x signature taken from honest tokens of every key, algorithm and claims-set
		for _, pa := range algNames {
			for _, pid := range []string{"cA", "cB", "cBad"} {
				for s, sb := range w.goodSig {
					if a.Tier != "thorough" && !(s.A == pa || cc.r.Intn(6) == 0) {
						continue
					}
					tok := assembleSign1(protectedBytes(pa), w.enc[pid], false, sb)
					present("splice", s.A, tok)
				}
			}
		}
		// (e) equivalent-but-different protected bytes, alg only in the unprotected header, no payload, no signature
		for _, alg := range algs {
			sb := w.goodSig[sigID{"k1", alg, "cA"}]
			e := &cborx.Enc{}
			e.Map(1).Int(1)
			e.HeadW(1, uint64(-1-int64(algOf[alg])), 1) // non-preferred one-byte argument
			present("prot-alt", alg, assembleSign1(e.Bytes(), w.enc["cA"], false, sb))
			e2 := &cborx.Enc{}
			e2.Map(1)
			e2.HeadW(0, 1, 1) // key 1 as 0x18 0x01
			e2.Int(int64(algOf[alg]))
			present("prot-alt", alg, assembleSign1(e2.Bytes(), w.enc["cA"], false, sb))
			e3 := &cborx.Enc{}
			e3.IndefMap().Int(1).Int(int64(algOf[alg])).Break()
			present("prot-alt", alg, assembleSign1(e3.Bytes(), w.enc["cA"], false, sb))
			// alg in the unprotected bucket only
			u := &cborx.Enc{}
			u.Tag(18).Arr(4).Bstr([]byte{}).Map(1).Int(1).Int(int64(algOf[alg])).Bstr(w.enc["cA"]).Bstr(sb)
			present("alg-unprotected", alg, u.Bytes())
			// ... the same, but genuinely signed by the key holder over the Sig_structure of that very message
			// (empty protected bucket): still "no algorithm in its protected header", so nothing may verify
			for _, prot := range [][]byte{{}, {0xa0}} {
				for _, tbsProt := range [][]byte{{}, {0xa0}} {
					tbs := &cborx.Enc{}
					tbs.Arr(4).Tstr("Signature1").Bstr(tbsProt).Bstr([]byte{}).Bstr(w.enc["cA"])
					rs, err := cose.NewSigner(algOf[alg], w.kr[alg]["k1"].priv)
					if err != nil {
						fatal("NewSigner: %v", err)
					}
					sig, err := rs.Sign(rand.Reader, tbs.Bytes())
					if err != nil {
						fatal("raw signing: %v", err)
					}
					for _, unprot := range []int{1, 0} { // alg in the unprotected bucket / nowhere
						u := &cborx.Enc{}
						u.Tag(18).Arr(4).Bstr(prot)
						if unprot == 1 {
							u.Map(1).Int(1).Int(int64(algOf[alg]))
						} else {
							u.Map(0)
						}
						u.Bstr(w.enc["cA"]).Bstr(sig)
						present("alg-unprotected-signed", alg, u.Bytes())
					}
				}
			}
			present("nil-payload", alg, assembleSign1(protectedBytes(alg), nil, true, sb))
			present("empty-sig", alg, assembleSign1(protectedBytes(alg), w.enc["cA"], false, []byte{}))
		}
		t.Close(map[string]any{"by_kind": bykind})
	}
}
