package main

// Building real claims-sets from abstract descriptions (concretisation). Nothing here
// decides anything: every check projects the object that was actually built with Abs.

import (
	"encoding/base64"
	"encoding/json"
	"fmt"
	"reflect"
	"unsafe"

	"verif/harness/cborx"

	"github.com/veraison/eat"
	"github.com/veraison/psatoken"
)

func vFromAny(x any) V {
	m := x.(map[string]any)
	v := V{K: m["k"].(string), N: int(m["n"].(float64)), B0: int(m["b0"].(float64)), I: int64(m["v"].(float64)), S: []any{}}
	if h, ok := m["h"].(string); ok {
		v.H = h
	}
	if s, ok := m["s"].([]any); ok {
		for _, e := range s {
			if _, isMap := e.(map[string]any); isMap {
				v.S = append(v.S, vFromAny(e))
			} else {
				v.S = append(v.S, e)
			}
		}
	}
	return v
}

func compFromAny(x any) Comp {
	m := x.(map[string]any)
	return Comp{Nul: m["nul"].(bool), MT: vFromAny(m["mt"]), MV: vFromAny(m["mv"]), Ver: vFromAny(m["ver"]),
		SID: vFromAny(m["sid"]), Desc: vFromAny(m["desc"])}
}

func swFromAny(x any) []Comp {
	out := []Comp{}
	switch t := x.(type) {
	case map[string]any:
		for _, c := range t["l"].([]any) {
			out = append(out, compFromAny(c))
		}
	case []any:
		for _, c := range t {
			out = append(out, compFromAny(c))
		}
	}
	return out
}

// CSpec is an abstract description of a claims-set to build.
type CSpec struct {
	P     string
	Canon string
	Vals  map[string]V // scalar claims; missing = absent
	Sw    []Comp
}

func (s CSpec) clone() CSpec {
	n := CSpec{P: s.P, Canon: s.Canon, Vals: map[string]V{}, Sw: append([]Comp{}, s.Sw...)}
	for k, v := range s.Vals {
		n.Vals[k] = v
	}
	return n
}

func (c Conc) compReal(a Comp) *psatoken.SwComponent {
	if a.Nul {
		return nil
	}
	sc := &psatoken.SwComponent{}
	if a.MT.K != "abs" {
		s := c.str(a.MT.N, a.MT.B0)
		sc.MeasurementType = &s
	}
	if a.MV.K != "abs" {
		b := c.bytes(a.MV.N, a.MV.B0)
		sc.MeasurementValue = &b
	}
	if a.Ver.K != "abs" {
		s := c.str(a.Ver.N, a.Ver.B0)
		sc.Version = &s
	}
	if a.SID.K != "abs" {
		b := c.bytes(a.SID.N, a.SID.B0)
		sc.SignerID = &b
	}
	if a.Desc.K != "abs" {
		s := c.str(a.Desc.N, a.Desc.B0)
		sc.MeasurementDesc = &s
	}
	return sc
}

// newContainer builds the library's container holding exactly vals (valid or not),
// writing the unexported slice directly.
func newContainer(vals []*psatoken.SwComponent) psatoken.ISwComponents {
	c := &psatoken.SwComponents[*psatoken.SwComponent]{}
	f := reflect.ValueOf(c).Elem().FieldByName("values")
	reflect.NewAt(f.Type(), unsafe.Pointer(f.UnsafeAddr())).Elem().Set(reflect.ValueOf(vals))
	return c
}

func (c Conc) nonceReal(v V) *eat.Nonce {
	e := &cborx.Enc{}
	if v.N != 1 {
		e.Arr(v.N)
	}
	for _, x := range v.S {
		b := x.(V)
		e.Bstr(c.bytes(b.N, b.B0))
	}
	n := &eat.Nonce{}
	if err := n.UnmarshalCBOR(e.Bytes()); err != nil {
		fatal("building eat.Nonce: %v", err)
	}
	return n
}

// BuildLit builds the claims-set as a struct literal (fields assigned directly).
func (c Conc) BuildLit(s CSpec) psatoken.IClaims {
	comps := []*psatoken.SwComponent{}
	for _, a := range s.Sw {
		comps = append(comps, c.compReal(a))
	}
	get := func(k string) (V, bool) {
		v, ok := s.Vals[k]
		if !ok || v.K == "abs" {
			return v, false
		}
		return v, true
	}
	switch s.P {
	case "P1":
		o := &psatoken.P1Claims{CanonicalProfile: s.Canon, SwComponents: newContainer(comps)}
		if v, ok := get("profile"); ok {
			n := v.S[0].(string)
			o.Profile = &n
		}
		if v, ok := get("clientId"); ok {
			x := int32(v.I)
			o.ClientID = &x
		}
		if v, ok := get("lifecycle"); ok {
			x := uint16(v.I)
			o.SecurityLifeCycle = &x
		}
		if v, ok := get("implId"); ok {
			b := c.bytes(v.N, v.B0)
			o.ImplID = &b
		}
		if v, ok := get("bootSeed"); ok {
			b := c.bytes(v.N, v.B0)
			o.BootSeed = &b
		}
		if v, ok := get("certRef"); ok {
			t := c.text(v.S)
			o.CertificationReference = &t
		}
		if v, ok := get("noSw"); ok {
			x := uint(v.I)
			o.NoSwMeasurements = &x
		}
		if v, ok := get("nonce"); ok {
			b := c.bytes(v.N, v.B0)
			o.Nonce = &b
		}
		if v, ok := get("instId"); ok {
			b := c.bytes(v.N, v.B0)
			o.InstID = &b
		}
		if v, ok := get("vsi"); ok {
			t := c.str(v.N, v.B0)
			o.VSI = &t
		}
		return o
	case "P2":
		o := &psatoken.P2Claims{CanonicalProfile: s.Canon, SwComponents: newContainer(comps)}
		if v, ok := get("profile"); ok {
			p := eat.Profile{}
			if err := p.Set(v.S[0].(string)); err != nil {
				fatal("eat.Profile.Set(%q): %v", v.S[0], err)
			}
			o.Profile = &p
		}
		if v, ok := get("clientId"); ok {
			x := int32(v.I)
			o.ClientID = &x
		}
		if v, ok := get("lifecycle"); ok {
			x := uint16(v.I)
			o.SecurityLifeCycle = &x
		}
		if v, ok := get("implId"); ok {
			b := c.bytes(v.N, v.B0)
			o.ImplID = &b
		}
		if v, ok := get("bootSeed"); ok {
			b := c.bytes(v.N, v.B0)
			o.BootSeed = &b
		}
		if v, ok := get("certRef"); ok {
			t := c.text(v.S)
			o.CertificationReference = &t
		}
		if v, ok := get("nonce"); ok {
			o.Nonce = c.nonceReal(v)
		}
		if v, ok := get("instId"); ok {
			u := eat.UEID(c.bytes(v.N, v.B0))
			o.InstID = &u
		}
		if v, ok := get("vsi"); ok {
			t := c.str(v.N, v.B0)
			o.VSI = &t
		}
		return o
	}
	panic("unknown profile " + s.P)
}

// JSON member names (the library's documented external names; used to concretise only).
var jsonNames = map[string]map[string]string{
	"P1": {"profile": "psa-profile", "clientId": "psa-client-id", "lifecycle": "psa-security-lifecycle",
		"implId": "psa-implementation-id", "bootSeed": "psa-boot-seed", "certRef": "psa-hwver",
		"sw": "psa-software-components", "noSw": "psa-no-software-measurements", "nonce": "psa-nonce",
		"instId": "psa-instance-id", "vsi": "psa-verification-service-indicator"},
	"P2": {"profile": "eat-profile", "clientId": "psa-client-id", "lifecycle": "psa-security-lifecycle",
		"implId": "psa-implementation-id", "bootSeed": "psa-boot-seed", "certRef": "psa-certification-reference",
		"sw": "psa-software-components", "nonce": "psa-nonce",
		"instId": "psa-instance-id", "vsi": "psa-verification-service-indicator"},
}
var compJSONNames = map[string]string{"mt": "measurement-type", "mv": "measurement-value", "ver": "version",
	"sid": "signer-id", "desc": "measurement-description"}

func b64(b []byte) string { return base64.StdEncoding.EncodeToString(b) }

func (c Conc) compJSON(a Comp) any {
	if a.Nul {
		return nil
	}
	m := map[string]any{}
	if a.MT.K != "abs" {
		m[compJSONNames["mt"]] = c.str(a.MT.N, a.MT.B0)
	}
	if a.MV.K != "abs" {
		m[compJSONNames["mv"]] = b64(c.bytes(a.MV.N, a.MV.B0))
	}
	if a.Ver.K != "abs" {
		m[compJSONNames["ver"]] = c.str(a.Ver.N, a.Ver.B0)
	}
	if a.SID.K != "abs" {
		m[compJSONNames["sid"]] = b64(c.bytes(a.SID.N, a.SID.B0))
	}
	if a.Desc.K != "abs" {
		m[compJSONNames["desc"]] = c.str(a.Desc.N, a.Desc.B0)
	}
	return m
}

// DocJSON renders the description as a JSON document with the profile's member names.
func (c Conc) DocJSON(s CSpec) []byte {
	names := jsonNames[s.P]
	m := map[string]any{}
	for k, v := range s.Vals {
		if v.K == "abs" {
			continue
		}
		switch v.K {
		case "bytes":
			m[names[k]] = b64(c.bytes(v.N, v.B0))
		case "int":
			m[names[k]] = v.I
		case "text":
			m[names[k]] = c.text(v.S)
		case "str":
			m[names[k]] = c.str(v.N, v.B0)
		case "prof":
			m[names[k]] = v.S[0].(string)
		case "nonces":
			l := []any{}
			for _, x := range v.S {
				b := x.(V)
				l = append(l, b64(c.bytes(b.N, b.B0)))
			}
			if len(l) == 1 {
				m[names[k]] = l[0]
			} else {
				m[names[k]] = l
			}
		}
	}
	if len(s.Sw) > 0 {
		l := []any{}
		for _, a := range s.Sw {
			l = append(l, c.compJSON(a))
		}
		m[names["sw"]] = l
	}
	b, err := json.Marshal(m)
	if err != nil {
		fatal("DocJSON: %v", err)
	}
	return b
}

func blankClaims(p, canon string) psatoken.IClaims {
	switch p {
	case "P1":
		return &psatoken.P1Claims{SwComponents: &psatoken.SwComponents[*psatoken.SwComponent]{}, CanonicalProfile: canon}
	case "P2":
		return &psatoken.P2Claims{SwComponents: &psatoken.SwComponents[*psatoken.SwComponent]{}, CanonicalProfile: canon}
	}
	panic("unknown profile")
}

// BuildJSON builds the claims-set by decoding a JSON document with the type's own
// (non-validating) unmarshaller.
func (c Conc) BuildJSON(s CSpec) (psatoken.IClaims, error) {
	o := blankClaims(s.P, s.Canon)
	doc := c.DocJSON(s)
	if err := json.Unmarshal(doc, o); err != nil {
		return nil, fmt.Errorf("%w (doc %s)", err, doc)
	}
	return o, nil
}

// CBOR keys per profile (documented wire format; used to concretise only).
var cborKeys = map[string]map[string]int64{
	"P1": {"profile": -75000, "clientId": -75001, "lifecycle": -75002, "implId": -75003, "bootSeed": -75004,
		"certRef": -75005, "sw": -75006, "noSw": -75007, "nonce": -75008, "instId": -75009, "vsi": -75010},
	"P2": {"profile": 265, "clientId": 2394, "lifecycle": 2395, "implId": 2396, "bootSeed": 2397,
		"certRef": 2398, "sw": 2399, "nonce": 10, "instId": 256, "vsi": 2400},
}
var compCBORKeys = map[string]int64{"mt": 1, "mv": 2, "ver": 4, "sid": 5, "desc": 6}
var claimOrder = []string{"profile", "clientId", "lifecycle", "implId", "bootSeed", "certRef", "sw", "noSw", "nonce", "instId", "vsi"}

func (c Conc) compCBOR(e *cborx.Enc, a Comp) {
	if a.Nul {
		e.Null()
		return
	}
	n := 0
	for _, v := range []V{a.MT, a.MV, a.Ver, a.SID, a.Desc} {
		if v.K != "abs" {
			n++
		}
	}
	e.Map(n)
	if a.MT.K != "abs" {
		e.Int(1).Tstr(c.str(a.MT.N, a.MT.B0))
	}
	if a.MV.K != "abs" {
		e.Int(2).Bstr(c.bytes(a.MV.N, a.MV.B0))
	}
	if a.Ver.K != "abs" {
		e.Int(4).Tstr(c.str(a.Ver.N, a.Ver.B0))
	}
	if a.SID.K != "abs" {
		e.Int(5).Bstr(c.bytes(a.SID.N, a.SID.B0))
	}
	if a.Desc.K != "abs" {
		e.Int(6).Tstr(c.str(a.Desc.N, a.Desc.B0))
	}
}

// DocCBOR renders the description as a CBOR claims map with the independent encoder.
func (c Conc) DocCBOR(s CSpec) []byte {
	keys := cborKeys[s.P]
	body := &cborx.Enc{}
	n := 0
	for _, k := range claimOrder {
		if k == "sw" {
			if len(s.Sw) > 0 {
				n++
				body.Int(keys["sw"]).Arr(len(s.Sw))
				for _, a := range s.Sw {
					c.compCBOR(body, a)
				}
			}
			continue
		}
		v, ok := s.Vals[k]
		if !ok || v.K == "abs" {
			continue
		}
		if _, has := keys[k]; !has {
			continue
		}
		n++
		body.Int(keys[k])
		switch v.K {
		case "bytes":
			body.Bstr(c.bytes(v.N, v.B0))
		case "int":
			body.Int(v.I)
		case "text":
			body.Tstr(c.text(v.S))
		case "str":
			body.Tstr(c.str(v.N, v.B0))
		case "prof":
			body.Tstr(v.S[0].(string))
		case "nonces":
			if v.N != 1 {
				body.Arr(v.N)
			}
			for _, x := range v.S {
				b := x.(V)
				body.Bstr(c.bytes(b.N, b.B0))
			}
		}
	}
	e := &cborx.Enc{}
	e.Map(n).Raw(body.Bytes())
	return e.Bytes()
}

type cborUnmarshaler interface{ UnmarshalCBOR([]byte) error }

// BuildCBOR builds the claims-set by decoding a CBOR map with the type's own
// (non-validating) unmarshaller.
func (c Conc) BuildCBOR(s CSpec) (psatoken.IClaims, error) {
	o := blankClaims(s.P, s.Canon)
	doc := c.DocCBOR(s)
	if err := o.(cborUnmarshaler).UnmarshalCBOR(doc); err != nil {
		return nil, fmt.Errorf("%w (doc %x)", err, doc)
	}
	return o, nil
}
