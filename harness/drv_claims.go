package main

// Drivers for the claims-set family (C01, C13, C18, C08's claims side): enumerate
// claims-sets from the class tables TLC exported (spec/Gen_Claims.tla), build each one
// for real, run validation and every getter, and record what was observed.

import (
	"crypto/sha256"
	"encoding/hex"
	"encoding/json"
	"fmt"
	"os"
	"path/filepath"
	"sort"

	"github.com/veraison/psatoken"
)

type domains struct {
	Classes    map[string]map[string][][]any `json:"classes"`
	Order      []string                      `json:"order"`
	CertShapes [][]any                       `json:"certShapes"`
	SwLists    [][]any                       `json:"swLists"`
}

func loadDomains(path string) *domains {
	b, err := os.ReadFile(path)
	if err != nil {
		fatal("read domains: %v", err)
	}
	d := &domains{}
	if err := json.Unmarshal(b, d); err != nil {
		fatal("parse domains: %v", err)
	}
	return d
}

// alt is one alternative value of one claim.
type alt struct {
	claim string
	v     V
	sw    []Comp
	cls   int // class index 0..3
}

func (d *domains) alts(p, claim string) []alt {
	out := []alt{}
	for ci, cl := range d.Classes[p][claim] {
		for _, x := range cl {
			a := alt{claim: claim, cls: ci}
			if claim == "sw" {
				a.sw = swFromAny(x)
			} else {
				a.v = vFromAny(x)
			}
			out = append(out, a)
		}
	}
	return out
}

func (s *CSpec) apply(a alt) {
	if a.claim == "sw" {
		s.Sw = a.sw
	} else {
		s.Vals[a.claim] = a.v
	}
}

var canonOf = map[string]string{"P1": psatoken.Profile1Name, "P2": psatoken.Profile2Name}

// base claims-sets: every claim at its first boundary-valid alternative
func (d *domains) base(p, kind string) CSpec {
	s := CSpec{P: p, Canon: canonOf[p], Vals: map[string]V{}}
	for _, c := range d.Order {
		as := d.alts(p, c)
		for _, a := range as {
			if a.cls == 1 {
				s.apply(a)
				break
			}
		}
	}
	delete(s.Vals, "noSw")
	optional := map[string][]string{"P1": {"profile", "certRef", "vsi"}, "P2": {"bootSeed", "certRef", "vsi"}}
	switch kind {
	case "minimal":
		for _, c := range optional[p] {
			delete(s.Vals, c)
		}
	case "nosw":
		if p == "P1" {
			s.Sw = nil
			s.Vals["noSw"] = V{K: "int", I: 1, S: []any{}}
		}
	}
	return s
}

func guard(f func() Ret, sw bool) (r Ret) {
	defer func() {
		if p := recover(); p != nil {
			r = Ret{OK: false, Cls: []string{"PANIC"}, Val: absent()}
			if sw {
				r.Val = []Comp{}
			}
		}
	}()
	return f()
}

func safeGetters(c psatoken.IClaims) map[string]Ret {
	g := map[string]Ret{}
	g["profile"] = guard(func() Ret { v, err := c.GetProfile(); return mkRet(err, absProf(v)) }, false)
	g["clientId"] = guard(func() Ret { v, err := c.GetClientID(); return mkRet(err, absInt(int64(v))) }, false)
	g["lifecycle"] = guard(func() Ret { v, err := c.GetSecurityLifeCycle(); return mkRet(err, absInt(int64(v))) }, false)
	g["implId"] = guard(func() Ret { v, err := c.GetImplID(); return mkRet(err, absBytes(v)) }, false)
	g["bootSeed"] = guard(func() Ret { v, err := c.GetBootSeed(); return mkRet(err, absBytes(v)) }, false)
	g["certRef"] = guard(func() Ret { v, err := c.GetCertificationReference(); return mkRet(err, absText(v)) }, false)
	g["sw"] = guard(func() Ret { v, err := c.GetSoftwareComponents(); return mkRetSw(err, v) }, true)
	g["nonce"] = guard(func() Ret { v, err := c.GetNonce(); return mkRet(err, absBytes(v)) }, false)
	g["instId"] = guard(func() Ret { v, err := c.GetInstID(); return mkRet(err, absBytes(v)) }, false)
	g["vsi"] = guard(func() Ret { v, err := c.GetVSI(); return mkRet(err, absStr(v)) }, false)
	return g
}

// compGettersOf calls the five getters of every component GetSoftwareComponents hands out.
func compGettersOf(c psatoken.IClaims) (out []map[string]Ret) {
	out = []map[string]Ret{}
	defer func() {
		if p := recover(); p != nil {
			out = []map[string]Ret{{"mt": {OK: false, Cls: []string{"PANIC"}, Val: absent()}}}
		}
	}()
	l, err := c.GetSoftwareComponents()
	if err != nil {
		return out
	}
	for _, sc := range l {
		p, ok := sc.(*psatoken.SwComponent)
		if !ok || p == nil {
			continue
		}
		out = append(out, compGetters(p))
	}
	return out
}

func safeValidate(c psatoken.IClaims) Ret {
	return guard(func() Ret { return mkRet(c.Validate(), absent()) }, false)
}

// encDigest is a digest of both encodings (or of the error class when encoding fails).
func encDigest(c psatoken.IClaims) (s string) {
	defer func() {
		if p := recover(); p != nil {
			s = "PANIC"
		}
	}()
	h := sha256.New()
	if b, err := psatoken.EncodeClaimsToCBOR(c); err != nil {
		h.Write([]byte("cbor-error"))
	} else {
		h.Write(b)
	}
	h.Write([]byte{0})
	if b, err := psatoken.EncodeClaimsToJSON(c); err != nil {
		h.Write([]byte("json-error"))
	} else {
		h.Write(b)
	}
	return hex.EncodeToString(h.Sum(nil))[:24]
}

type readEv struct {
	B      int              `json:"b"`
	I      int              `json:"i"`
	Op     string           `json:"op"`
	Src    string           `json:"src"`
	How    string           `json:"how"`
	Pre    Obj              `json:"pre"`
	Post   Obj              `json:"post"`
	VRet   Ret              `json:"vret"`
	Get    map[string]Ret   `json:"get"`
	CGet   []map[string]Ret `json:"cget"`
	EvInst V                `json:"evInst"` // Evidence.GetInstanceID() on an Evidence holding these claims (absent = nil)
	EvImpl V                `json:"evImpl"`
	SnapEq bool             `json:"snapEq"`
	EncEq  bool             `json:"encEq"`
	RepEq  bool             `json:"repEq"`
}

func jsonEq(a, b any) bool {
	x, _ := json.Marshal(a)
	y, _ := json.Marshal(b)
	return string(x) == string(y)
}

// observeRead runs validation and all getters (twice), with a deep snapshot and both
// encodings taken before and after.
func observeRead(c psatoken.IClaims, b int, src, how string) readEv {
	ev := readEv{B: b, Op: "Read", Src: src, How: how}
	ev.Pre = AbsClaims(c)
	snap0, enc0 := deepDump(c), encDigest(c)
	ev.VRet = safeValidate(c)
	ev.Get = safeGetters(c)
	ev.CGet = compGettersOf(c)
	ev.EvInst, ev.EvImpl = absent(), absent()
	safely(func() {
		e := &psatoken.Evidence{Claims: c}
		if p := e.GetInstanceID(); p != nil {
			ev.EvInst = absBytes(*p)
		}
		if p := e.GetImplementationID(); p != nil {
			ev.EvImpl = absBytes(*p)
		}
	})
	v2, g2 := safeValidate(c), safeGetters(c)
	ev.RepEq = jsonEq(ev.VRet, v2) && jsonEq(ev.Get, g2)
	enc1 := encDigest(c)
	ev.Post = AbsClaims(c)
	ev.SnapEq = deepDump(c) == snap0
	ev.EncEq = enc0 == enc1 && enc0 != "PANIC"
	return ev
}

// nontrivialObj: not the blank object and not an all-valid one
func nontrivialRead(ev readEv) bool {
	return !ev.VRet.OK || len(ev.Pre.Sw.L) > 1
}

type claimsRun struct {
	a     *Args
	d     *domains
	t     *Tracer
	conc  Conc
	b     int
	skips int
	bysrc map[string]int
}

func (r *claimsRun) emit(s CSpec, src string, hows ...string) {
	if len(hows) == 0 {
		hows = []string{"lit"}
	}
	for _, how := range hows {
		var c psatoken.IClaims
		var err error
		switch how {
		case "lit":
			c = r.conc.BuildLit(s)
		case "json":
			c, err = r.conc.BuildJSON(s)
		case "cbor":
			c, err = r.conc.BuildCBOR(s)
		}
		if err != nil {
			r.skips++
			continue
		}
		ev := observeRead(c, r.b, src, how)
		r.b++
		r.bysrc[src]++
		r.t.Emit(ev, true, nontrivialRead(ev))
	}
}

func hbytes(n, b0 int) V { return V{K: "bytes", N: n, B0: b0, S: []any{}} }

func init() {
	drivers["claims-read"] = func(a *Args) {
		r := &claimsRun{a: a, d: loadDomains(a.In), t: NewTracer(a.Out), conc: Conc{r: a.Rand()}, bysrc: map[string]int{}}
		d := r.d
		thorough := a.Tier == "thorough"
		for _, p := range []string{"P1", "P2"} {
			bases := map[string]CSpec{"full": d.base(p, "full"), "minimal": d.base(p, "minimal"), "nosw": d.base(p, "nosw")}
			for _, kind := range []string{"full", "minimal", "nosw"} {
				r.emit(bases[kind], "base:"+kind, "lit", "json", "cbor")
			}
			// blank and fresh objects
			r.emit(CSpec{P: p, Canon: canonOf[p], Vals: map[string]V{}}, "blank", "lit")
			// (E1a) singles over the fine domain, on each base, built three ways
			for _, kind := range []string{"full", "minimal", "nosw"} {
				for _, c := range d.Order {
					for _, al := range d.alts(p, c) {
						s := bases[kind].clone()
						s.apply(al)
						r.emit(s, "single:"+kind, "lit", "json", "cbor")
					}
				}
			}
			// (E1a') the same singles on a claims-set that validates against *another* canonical name - what a derived
			// profile embedding the built-in type holds, or a bare struct literal (canonical name empty): every getter,
			// every class and the verdict are those of the embedded profile's rules, only the profile check differs
			for _, canon := range []string{"", "http://example.com/derived/" + p} {
				for _, kind := range []string{"full", "minimal"} {
					for _, keepProfile := range []bool{true, false} {
						bs := bases[kind].clone()
						bs.Canon = canon
						if !keepProfile {
							if canon == "" {
								delete(bs.Vals, "profile")
							} else {
								bs.Vals["profile"] = V{K: "prof", S: []any{canon}}
							}
						}
						r.emit(bs, "derived:"+kind, "lit")
						for _, c := range d.Order {
							if c == "profile" {
								continue
							}
							for _, al := range d.alts(p, c) {
								s := bs.clone()
								s.apply(al)
								r.emit(s, "derived-single:"+kind, "lit")
							}
						}
					}
				}
				r.emit(CSpec{P: p, Canon: canon, Vals: map[string]V{}}, "derived-blank", "lit")
			}
			// (E1b) all pairs over the fine domain on the full base (masking)
			for i, c1 := range d.Order {
				for _, c2 := range d.Order[i+1:] {
					for _, a1 := range d.alts(p, c1) {
						for _, a2 := range d.alts(p, c2) {
							s := bases["full"].clone()
							s.apply(a1)
							s.apply(a2)
							r.emit(s, "pair", "lit")
						}
					}
				}
			}
			// (E1c) triples: exhaustive in the thorough tier, sampled otherwise
			ntri := 0
			for i, c1 := range d.Order {
				for j, c2 := range d.Order[i+1:] {
					for _, c3 := range d.Order[i+1+j+1:] {
						for _, a1 := range d.alts(p, c1) {
							for _, a2 := range d.alts(p, c2) {
								for _, a3 := range d.alts(p, c3) {
									ntri++
									if !thorough && r.conc.r.Intn(40) != 0 {
										continue
									}
									s := bases["full"].clone()
									s.apply(a1)
									s.apply(a2)
									s.apply(a3)
									r.emit(s, "triple", "lit")
								}
							}
						}
					}
				}
			}
			// (E2) byte-string lengths 0..80 x first-byte class x three contexts
			for _, c := range []string{"implId", "bootSeed", "nonce", "instId"} {
				for n := 0; n <= 80; n++ {
					for b0 := 0; b0 <= 2; b0++ {
						v := hbytes(n, b0)
						if c == "nonce" && p == "P2" {
							v = V{K: "nonces", N: 1, S: []any{hbytes(n, b0)}}
						}
						for ctx := 0; ctx < 3; ctx++ {
							var s CSpec
							switch ctx {
							case 0:
								s = bases["full"].clone()
							case 1:
								s = bases["minimal"].clone()
							case 2: // another claim invalid: masking
								s = bases["full"].clone()
								s.Vals["lifecycle"] = V{K: "int", I: 65535, S: []any{}}
							}
							s.Vals[c] = v
							hows := []string{"lit"}
							if ctx == 0 {
								hows = []string{"lit", "cbor"}
							}
							r.emit(s, "len:"+c, hows...)
						}
					}
				}
			}
			for _, f := range []string{"mv", "sid"} {
				for n := 0; n <= 80; n++ {
					for b0 := 0; b0 <= 2; b0 += 2 {
						for ctx := 0; ctx < 2; ctx++ {
							s := bases["full"].clone()
							ok := Comp{MT: absent(), MV: hbytes(32, 2), Ver: absent(), SID: hbytes(48, 2), Desc: absent()}
							bad := ok
							if f == "mv" {
								bad.MV = hbytes(n, b0)
							} else {
								bad.SID = hbytes(n, b0)
							}
							if ctx == 0 {
								s.Sw = []Comp{bad}
							} else {
								s.Sw = []Comp{ok, bad, ok}
							}
							r.emit(s, "len:comp."+f, "lit")
						}
					}
				}
			}
			// (E3) the complete single-edit neighbourhood of the reference shapes
			for _, sh := range d.CertShapes {
				hasX := false
				for _, c := range sh {
					hasX = hasX || c.(string) == "X"
				}
				for k := 0; k < 3 || (hasX && k < len(otherRunes)); k++ {
					s := bases["full"].clone()
					s.Vals["certRef"] = V{K: "text", N: len(sh), S: sh}
					how := []string{"lit", "json", "cbor"}[k%3]
					if hasX {
						// go through every "other" character at the X positions (literal build keeps the exact string)
						txt := r.conc.textWith(sh, k)
						c := r.conc.BuildLit(s)
						setCertRef(c, txt)
						ev := observeRead(c, r.b, "certshape", "lit")
						r.b++
						r.bysrc["certshape"]++
						r.t.Emit(ev, true, nontrivialRead(ev))
						continue
					}
					r.emit(s, "certshape", how)
				}
			}
			// (E4) component lists
			for _, l := range d.SwLists {
				comps := swFromAny(l)
				s := bases["full"].clone()
				s.Sw = comps
				r.emit(s, "swlist", "lit")
				if p == "P1" {
					s2 := s.clone()
					s2.Vals["noSw"] = V{K: "int", I: 1, S: []any{}}
					r.emit(s2, "swlist+flag", "lit")
				}
				if len(comps) <= 1 || r.conc.r.Intn(8) == 0 || thorough {
					r.emit(s, "swlist", "json", "cbor")
				}
			}
			// (E1d) random points of the full class product
			nrand := 10000
			if thorough {
				nrand = 150000
			}
			if a.N > 0 {
				nrand = a.N
			}
			for k := 0; k < nrand; k++ {
				s := CSpec{P: p, Canon: canonOf[p], Vals: map[string]V{}}
				for _, c := range d.Order {
					as := d.alts(p, c)
					if len(as) == 0 {
						continue
					}
					s.apply(as[r.conc.r.Intn(len(as))])
				}
				how := "lit"
				if k%5 == 4 {
					how = []string{"json", "cbor"}[k%2]
				}
				r.emit(s, "random", how)
			}
			_ = ntri
		}
		// the repository's own JSON vectors, loaded the way its tests load them (no validation), as recorded executions
		if a.In2 != "" {
			files, _ := filepath.Glob(filepath.Join(a.In2, "*.json"))
			sort.Strings(files)
			for _, f := range files {
				buf, err := os.ReadFile(f)
				if err != nil {
					continue
				}
				for _, p := range []string{"P1", "P2"} {
					c := blankClaims(p, canonOf[p])
					if err := json.Unmarshal(buf, c); err != nil {
						continue
					}
					ev := observeRead(c, r.b, "vec:"+filepath.Base(f), "json")
					r.b++
					r.bysrc["vector"]++
					r.t.Emit(ev, true, nontrivialRead(ev))
				}
			}
		}
		// the exported per-claim validators over their value classes
		emitV := func(fn string, arg V, err error) {
			r.t.Emit(map[string]any{"b": r.b, "i": 0, "op": "Validator", "fn": fn, "arg": arg, "ret": mkRet(err, absent())}, true, err != nil)
			r.b++
			r.bysrc["validator"]++
		}
		for n := 0; n <= 80; n++ {
			for b0 := 0; b0 <= 2; b0++ {
				x := r.conc.bytes(n, b0)
				emitV("ValidateImplID", absBytes(x), psatoken.ValidateImplID(x))
				emitV("ValidatePSAHashType", absBytes(x), psatoken.ValidatePSAHashType(x))
				emitV("ValidateNonce", absBytes(x), psatoken.ValidateNonce(x))
				if n > 0 {
					emitV("ValidateInstID", absBytes(x), psatoken.ValidateInstID(x))
				}
			}
		}
		for _, n := range []int{0, 1, 46} {
			for cls := 0; cls <= 2; cls++ {
				x := r.conc.str(n, cls)
				emitV("ValidateVSI", absStr(x), psatoken.ValidateVSI(x))
			}
		}
		for _, x := range []string{"", "md2", "md5", "sha-1", "sha-224", "sha-256", "sha-384", "sha-512", "shake128", "shake256", "sha256", "SHA-256", "sha-512 ", "sha-3", "x"} {
			emitV("ValidateHashAlgID", V{K: "str", N: len(x), S: []any{x}, H: hx([]byte(x))}, psatoken.ValidateHashAlgID(x))
		}
		for _, l := range d.SwLists {
			comps := swFromAny(l)
			real := []psatoken.ISwComponent{}
			absl := []Comp{}
			hasNull := false
			for _, ac := range comps {
				rc := r.conc.compReal(ac)
				if rc == nil {
					hasNull = true
					break
				}
				real = append(real, rc)
				absl = append(absl, absComp(rc))
			}
			if hasNull {
				continue
			}
			var verr error
			pan := safely(func() { verr = psatoken.ValidateSwComponents(real) })
			ret := mkRet(verr, absent())
			if pan {
				ret = Ret{OK: false, Cls: []string{"PANIC"}, Val: absent()}
			}
			r.t.Emit(map[string]any{"b": r.b, "i": 0, "op": "Validator", "fn": "ValidateSwComponents", "arg": swArg{L: absl}, "ret": ret}, true, true)
			r.b++
		}
		r.t.Close(map[string]any{"skipped_builds": r.skips, "by_source": r.bysrc})
		fmt.Fprintf(os.Stderr, "claims-read: %d events, %d skipped builds\n", r.t.n, r.skips)
	}
}

func setCertRef(c psatoken.IClaims, txt string) {
	switch t := c.(type) {
	case *psatoken.P1Claims:
		t.CertificationReference = &txt
	case *psatoken.P2Claims:
		t.CertificationReference = &txt
	}
}
