package main

// The abstraction function Abs (real object -> abstract value of spec/PsaTypes.tla)
// and the concretisation of abstract values drawn by TLC. Together with trace.go this
// is the trusted base of every conformance check; it contains no rule of the library.

import (
	"crypto/sha256"
	"encoding/hex"
	"errors"
	"fmt"
	"math/rand"
	"reflect"
	"sort"
	"strings"
	"unicode/utf8"
	"unsafe"

	"github.com/veraison/eat"
	"github.com/veraison/psatoken"
)

// V mirrors PsaTypes!V: a uniformly typed abstract value.
type V struct {
	K  string `json:"k"`
	N  int    `json:"n"`
	B0 int    `json:"b0"`
	I  int64  `json:"v"`
	S  []any  `json:"s"`
	H  string `json:"h"`
}

// hx identifies concrete content for equality comparisons: the hex itself when short,
// otherwise a digest of it.
func hx(b []byte) string {
	if len(b) <= 10 {
		return hex.EncodeToString(b)
	}
	d := sha256.Sum256(b)
	return "#" + hex.EncodeToString(d[:7])
}

func absent() V { return V{K: "abs", S: []any{}} }

func b0Class(b []byte) int {
	if len(b) == 0 || b[0] == 0 {
		return 0
	}
	if b[0] == 1 {
		return 1
	}
	return 2
}

func absBytes(b []byte) V {
	return V{K: "bytes", N: len(b), B0: b0Class(b), S: []any{}, H: hx(b)}
}

func absBytesP(p *[]byte) V {
	if p == nil {
		return absent()
	}
	return absBytes(*p)
}

func absInt(i int64) V { return V{K: "int", I: i, S: []any{}} }

// shape of a certification reference: one symbol per rune, D digit, H hyphen, X other
func shapeOf(s string) []any {
	out := []any{}
	for _, r := range s {
		switch {
		case r >= '0' && r <= '9':
			out = append(out, "D")
		case r == '-':
			out = append(out, "H")
		default:
			out = append(out, "X")
		}
	}
	return out
}

func absText(s string) V {
	sh := shapeOf(s)
	return V{K: "text", N: len(sh), S: sh, H: hx([]byte(s))}
}

func strClass(s string) int {
	cls := 0
	for i := 0; i < len(s); i++ {
		c := s[i]
		if c < 0x20 || c == '"' || c == '\\' || c == 0x7f {
			return 2
		}
		if c >= 0x80 {
			cls = 1
		}
	}
	return cls
}

func absStr(s string) V {
	return V{K: "str", N: len(s), B0: strClass(s), S: []any{}, H: hx([]byte(s))}
}

func absStrP(p *string) V {
	if p == nil {
		return absent()
	}
	return absStr(*p)
}

func absProf(name string) V { return V{K: "prof", S: []any{name}} }

// Comp mirrors PsaClaims!Comp.
type Comp struct {
	Nul  bool `json:"nul"`
	MT   V    `json:"mt"`
	MV   V    `json:"mv"`
	Ver  V    `json:"ver"`
	SID  V    `json:"sid"`
	Desc V    `json:"desc"`
}

type Sw struct {
	L []Comp `json:"l"`
}

// Obj mirrors the claims-set record of PsaClaims.
type Obj struct {
	P         string `json:"p"`
	Canon     string `json:"canon"`
	Profile   V      `json:"profile"`
	ClientID  V      `json:"clientId"`
	Lifecycle V      `json:"lifecycle"`
	ImplID    V      `json:"implId"`
	BootSeed  V      `json:"bootSeed"`
	CertRef   V      `json:"certRef"`
	Sw        Sw     `json:"sw"`
	NoSw      V      `json:"noSw"`
	Nonce     V      `json:"nonce"`
	InstID    V      `json:"instId"`
	VSI       V      `json:"vsi"`
}

func absComp(sc *psatoken.SwComponent) Comp {
	if sc == nil {
		return Comp{Nul: true, MT: absent(), MV: absent(), Ver: absent(), SID: absent(), Desc: absent()}
	}
	return Comp{
		MT:   absStrP(sc.MeasurementType),
		MV:   absBytesP(sc.MeasurementValue),
		Ver:  absStrP(sc.Version),
		SID:  absBytesP(sc.SignerID),
		Desc: absStrP(sc.MeasurementDesc),
	}
}

// absIComp projects a component handed out through the ISwComponent interface.
func absIComp(sc psatoken.ISwComponent) Comp {
	if sc == nil {
		return absComp(nil)
	}
	if p, ok := sc.(*psatoken.SwComponent); ok {
		return absComp(p)
	}
	panic(fmt.Sprintf("foreign component type %T", sc))
}

// containerValues reads the unexported slice of the library's generic container.
func containerValues(c psatoken.ISwComponents) []*psatoken.SwComponent {
	if c == nil {
		return nil
	}
	rv := reflect.ValueOf(c)
	if rv.Kind() == reflect.Pointer {
		if rv.IsNil() {
			return nil
		}
		rv = rv.Elem()
	} else {
		// make addressable copy
		cp := reflect.New(rv.Type()).Elem()
		cp.Set(rv)
		rv = cp
	}
	f := rv.FieldByName("values")
	if !f.IsValid() {
		panic("container has no 'values' field: abstraction must be updated")
	}
	vals, ok := reflect.NewAt(f.Type(), unsafe.Pointer(f.UnsafeAddr())).Elem().Interface().([]*psatoken.SwComponent)
	if !ok {
		panic("container values are not []*SwComponent")
	}
	return vals
}

func absSw(c psatoken.ISwComponents) Sw {
	out := Sw{L: []Comp{}}
	for _, v := range containerValues(c) {
		out.L = append(out.L, absComp(v))
	}
	return out
}

func absNonce(n *eat.Nonce) V {
	if n == nil {
		return absent()
	}
	l := []any{}
	for i := 0; i < n.Len(); i++ {
		l = append(l, absBytes(n.GetI(i)))
	}
	return V{K: "nonces", N: len(l), S: l}
}

func absP1(c *psatoken.P1Claims) Obj {
	o := Obj{P: "P1", Canon: c.CanonicalProfile}
	if c.Profile == nil {
		o.Profile = absent()
	} else {
		o.Profile = absProf(*c.Profile)
	}
	o.ClientID, o.Lifecycle, o.NoSw = absent(), absent(), absent()
	if c.ClientID != nil {
		o.ClientID = absInt(int64(*c.ClientID))
	}
	if c.SecurityLifeCycle != nil {
		o.Lifecycle = absInt(int64(*c.SecurityLifeCycle))
	}
	if c.NoSwMeasurements != nil {
		f := *c.NoSwMeasurements
		if f > 2147483647 { // TLC integers are 32 bits; a flag other than 1 carries no verdict anyway
			f = 2147483647
		}
		o.NoSw = absInt(int64(f))
	}
	o.ImplID = absBytesP(c.ImplID)
	o.BootSeed = absBytesP(c.BootSeed)
	o.Nonce = absBytesP(c.Nonce)
	o.InstID = absBytesP(c.InstID)
	o.CertRef = absent()
	if c.CertificationReference != nil {
		o.CertRef = absText(*c.CertificationReference)
	}
	o.VSI = absStrP(c.VSI)
	o.Sw = absSw(c.SwComponents)
	return o
}

func absP2(c *psatoken.P2Claims) Obj {
	o := Obj{P: "P2", Canon: c.CanonicalProfile}
	if c.Profile == nil {
		o.Profile = absent()
	} else {
		s, err := c.Profile.Get()
		if err != nil {
			o.Profile = absProf("<empty-eat-profile>")
		} else {
			o.Profile = absProf(s)
		}
	}
	o.ClientID, o.Lifecycle, o.NoSw = absent(), absent(), absent()
	if c.ClientID != nil {
		o.ClientID = absInt(int64(*c.ClientID))
	}
	if c.SecurityLifeCycle != nil {
		o.Lifecycle = absInt(int64(*c.SecurityLifeCycle))
	}
	o.ImplID = absBytesP(c.ImplID)
	o.BootSeed = absBytesP(c.BootSeed)
	o.Nonce = absNonce(c.Nonce)
	o.InstID = absent()
	if c.InstID != nil {
		o.InstID = absBytes([]byte(*c.InstID))
	}
	o.CertRef = absent()
	if c.CertificationReference != nil {
		o.CertRef = absText(*c.CertificationReference)
	}
	o.VSI = absStrP(c.VSI)
	o.Sw = absSw(c.SwComponents)
	return o
}

// baseOf finds the built-in claims struct inside c (c itself, or the struct an
// extension embeds).
func baseOf(c psatoken.IClaims) any {
	switch t := c.(type) {
	case *psatoken.P1Claims:
		return t
	case *psatoken.P2Claims:
		return t
	case *X1Claims:
		return &t.P1Claims
	case *X2Claims:
		return &t.P2Claims
	case *X3Claims:
		return &t.P2Claims
	case *X4Claims:
		return &t.P1Claims
	case *X7Claims:
		return baseOf(t.IClaims)
	}
	panic(fmt.Sprintf("unknown claims type %T", c))
}

// AbsClaims is Abs for claims-sets.
func AbsClaims(c psatoken.IClaims) Obj {
	switch t := baseOf(c).(type) {
	case *psatoken.P1Claims:
		return absP1(t)
	case *psatoken.P2Claims:
		return absP2(t)
	}
	panic("unreachable")
}

// ---------- results ----------

// Ret mirrors PsaClaims!Ret with cls as the (sorted) list of sentinel classes.
type Ret struct {
	OK  bool     `json:"ok"`
	Cls []string `json:"cls"`
	Val any      `json:"val"`
}

var sentinels = []struct {
	name string
	err  error
}{
	{"missingMandatory", psatoken.ErrMissingMandatory},
	{"missingOptional", psatoken.ErrMissingOptional},
	{"notInProfile", psatoken.ErrNotInProfile},
	{"wrongProfile", psatoken.ErrWrongProfile},
	{"wrongSyntax", psatoken.ErrWrongSyntax},
}

func classes(err error) []string {
	out := []string{}
	if err == nil {
		return out
	}
	for _, s := range sentinels {
		if errors.Is(err, s.err) {
			out = append(out, s.name)
		}
	}
	return out
}

func mkRet(err error, val any) Ret {
	if err != nil {
		return Ret{OK: false, Cls: classes(err), Val: absent()}
	}
	return Ret{OK: true, Cls: []string{}, Val: val}
}

func mkRetSw(err error, l []psatoken.ISwComponent) Ret {
	out := []Comp{}
	if err != nil {
		return Ret{OK: false, Cls: classes(err), Val: out}
	}
	for _, c := range l {
		out = append(out, absIComp(c))
	}
	return Ret{OK: true, Cls: []string{}, Val: out}
}

// getters runs the ten IClaims getters and projects their results.
func getters(c psatoken.IClaims) map[string]Ret {
	g := map[string]Ret{}
	{
		v, err := c.GetProfile()
		g["profile"] = mkRet(err, absProf(v))
	}
	{
		v, err := c.GetClientID()
		g["clientId"] = mkRet(err, absInt(int64(v)))
	}
	{
		v, err := c.GetSecurityLifeCycle()
		g["lifecycle"] = mkRet(err, absInt(int64(v)))
	}
	{
		v, err := c.GetImplID()
		g["implId"] = mkRet(err, absBytes(v))
	}
	{
		v, err := c.GetBootSeed()
		g["bootSeed"] = mkRet(err, absBytes(v))
	}
	{
		v, err := c.GetCertificationReference()
		g["certRef"] = mkRet(err, absText(v))
	}
	{
		v, err := c.GetSoftwareComponents()
		g["sw"] = mkRetSw(err, v)
	}
	{
		v, err := c.GetNonce()
		g["nonce"] = mkRet(err, absBytes(v))
	}
	{
		v, err := c.GetInstID()
		g["instId"] = mkRet(err, absBytes(v))
	}
	{
		v, err := c.GetVSI()
		g["vsi"] = mkRet(err, absStr(v))
	}
	return g
}

// ---------- concretisation ----------

type Conc struct {
	r    *rand.Rand
	ar   *byteArena // optional: aliased byte-string arguments (claims-hist)
	minW int        // optional: minimum width of every CBOR head in assembled tokens (non-preferred serialisation)
}

func (c Conc) bytes(n, b0 int) []byte {
	b := make([]byte, n)
	c.r.Read(b)
	if n > 0 {
		switch b0 {
		case 0:
			b[0] = 0
		case 1:
			b[0] = 1
		default:
			b[0] = []byte{0x02, 0x80, 0xff, 0x7f, 0x10}[c.r.Intn(5)]
		}
	}
	return b
}

var otherRunes = []string{"/", ":", "a", " ", "\n", "٣", "é", "_", "+", "\x00", "\r", "\t", ".", "１"}

// forceX >= 0 makes every text concretisation use the forceX-th "other" character (sweeps set it)
var forceX = -1

func (c Conc) text(shape []any) string { return c.textWith(shape, forceX) }

// textWith concretises a shape; x >= 0 forces the x-th "other" character at every X position (so that a
// sweep can go through all of them: slash, colon, letter, space, newline, non-ASCII digit, ...).
func (c Conc) textWith(shape []any, x int) string {
	var sb strings.Builder
	for _, s := range shape {
		switch s.(string) {
		case "D":
			sb.WriteByte(byte('0' + c.r.Intn(10)))
		case "H":
			sb.WriteByte('-')
		default:
			if x >= 0 {
				sb.WriteString(otherRunes[x%len(otherRunes)])
			} else {
				sb.WriteString(otherRunes[c.r.Intn(len(otherRunes))])
			}
		}
	}
	return sb.String()
}

// forceName, when set, is returned by str for every text of exactly its length and class: drivers go through the
// "structural" names (JSON member names, profile names, decimal key spellings, JSON literals) as claim *values*, so
// that a decoder or dispatcher confusing a value with a name is met.
var forceName = ""

func structuralNames() []string {
	seen := map[string]bool{}
	out := []string{}
	add := func(s string) {
		if s != "" && !seen[s] {
			seen[s] = true
			out = append(out, s)
		}
	}
	for _, p := range []string{"P1", "P2"} {
		for _, n := range jsonNames[p] {
			add(n)
		}
		for _, k := range cborKeys[p] {
			add(fmt.Sprint(k))
		}
	}
	for _, n := range []string{"PSA_IOT_PROFILE_1", "http://arm.com/psa/2.0.0", "null", "true", "{}", "[]", "measurement-value", "signer-id",
		"measurement-type", "version", "measurement-description", "psa-no-sw-measurement", "psa-certification-reference", "eat_profile", "265"} {
		add(n)
	}
	sort.Strings(out)
	return out
}

func (c Conc) str(n, cls int) string {
	if n == 0 {
		return ""
	}
	if forceName != "" && len(forceName) == n && strClass(forceName) == cls {
		return forceName
	}
	const ascii = "abcdefghijklmnopqrstuvwxyzABCDEFGHIJKLMNOPQRSTUVWXYZ0123456789:/.-_ &<>"
	b := make([]byte, 0, n)
	for len(b) < n {
		b = append(b, ascii[c.r.Intn(len(ascii))])
	}
	switch cls {
	case 1:
		// non-ASCII runes, keeping the byte length: ordinary ones and the ones encoders tend to treat specially (the
		// replacement character, line / paragraph separators, BOM, the edges of the UTF-8 length classes and of the
		// surrogate gap, the last code point)
		pool := []string{"é", "日", "ß", "\ufffd", "\u2028", "\u2029", "\ufeff", "\u00a0", "\u0080", "\u07ff", "\u0800", "\ud7ff", "\ue000",
			"\uffff", "\U00010000", "\U0010ffff", "\ufffc"}
		for try := 0; try < 8; try++ {
			u := pool[c.r.Intn(len(pool))]
			if len(u) <= n {
				copy(b[c.r.Intn(n-len(u)+1):], u)
				break
			}
		}
		if !utf8.Valid(b) || strClass(string(b)) != 1 {
			b = []byte(strings.Repeat("é", n/2) + strings.Repeat("x", n%2))
			if n == 1 {
				b = []byte("x")
			}
		}
	case 2:
		b[c.r.Intn(n)] = []byte{'"', '\\', '\n', '\t', 0x01, 0x00, 0x1b, 0x1f, 0x7f}[c.r.Intn(9)]
		if n >= 6 && c.r.Intn(3) == 0 { // the text of an escape sequence, literally
			lit := []string{`\ufffd`, `\u0041`, `\u0000`, `\"x\"y`}[c.r.Intn(4)]
			copy(b[c.r.Intn(n-len(lit)+1):], lit)
		}
	}
	return string(b)
}

func sAny(v any) []any {
	if v == nil {
		return []any{}
	}
	return v.([]any)
}
