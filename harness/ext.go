package main

// Extension profiles defined by the harness, following example_extensions_test.go:
// X1 embeds P1Claims, X2 embeds P2Claims and adds one optional integer claim, X3 embeds
// P2Claims and adds nothing. All use the embedding-aware codec of package encoding.

import (
	"errors"

	cbor "github.com/fxamacker/cbor/v2"
	"github.com/veraison/eat"
	"github.com/veraison/psatoken"
	"github.com/veraison/psatoken/encoding"
)

var (
	xem = func() cbor.EncMode {
		m, err := cbor.EncOptions{IndefLength: cbor.IndefLengthForbidden, TimeTag: cbor.EncTagRequired}.EncMode()
		if err != nil {
			panic(err)
		}
		return m
	}()
	xdm = func() cbor.DecMode {
		m, err := cbor.DecOptions{IndefLength: cbor.IndefLengthForbidden}.DecMode()
		if err != nil {
			panic(err)
		}
		return m
	}()
)

const (
	X1Name = "http://example.com/x1"
	X2Name = "http://example.com/x2"
	X3Name = "http://example.com/x3"
)

// ---- X1: P1 rules under another canonical name ----
type X1Claims struct {
	psatoken.P1Claims
}

func (o X1Claims) MarshalCBOR() ([]byte, error) { return encoding.SerializeStructToCBOR(xem, &o) }
func (o *X1Claims) UnmarshalCBOR(data []byte) error {
	return encoding.PopulateStructFromCBOR(xdm, data, o)
}
func (o X1Claims) MarshalJSON() ([]byte, error)     { return encoding.SerializeStructToJSON(&o) }
func (o *X1Claims) UnmarshalJSON(data []byte) error { return encoding.PopulateStructFromJSON(data, o) }
func (o *X1Claims) Validate() error                 { return psatoken.ValidateClaims(o) }

func NewX1Claims() psatoken.IClaims {
	p := X1Name
	return &X1Claims{P1Claims: psatoken.P1Claims{
		Profile:          &p,
		SwComponents:     &psatoken.SwComponents[*psatoken.SwComponent]{},
		CanonicalProfile: X1Name,
	}}
}

type X1Profile struct{}

func (X1Profile) GetName() string             { return X1Name }
func (X1Profile) GetClaims() psatoken.IClaims { return NewX1Claims() }

// ---- X2: P2 rules plus an optional integer claim ----
type X2Claims struct {
	psatoken.P2Claims
	Timestamp *int64 `cbor:"-75100,keyasint,omitempty" json:"timestamp,omitempty"`
}

func (o *X2Claims) GetTimestamp() (int64, error) {
	if o.Timestamp == nil {
		return 0, psatoken.ErrMissingOptional
	}
	if *o.Timestamp < 0 {
		return 0, errors.New("negative timestamp")
	}
	return *o.Timestamp, nil
}

func (o *X2Claims) Validate() error {
	if err := psatoken.ValidateClaims(o); err != nil {
		return err
	}
	return psatoken.FilterError(o.GetTimestamp())
}
func (o X2Claims) MarshalCBOR() ([]byte, error) { return encoding.SerializeStructToCBOR(xem, &o) }
func (o *X2Claims) UnmarshalCBOR(data []byte) error {
	return encoding.PopulateStructFromCBOR(xdm, data, o)
}
func (o X2Claims) MarshalJSON() ([]byte, error)     { return encoding.SerializeStructToJSON(&o) }
func (o *X2Claims) UnmarshalJSON(data []byte) error { return encoding.PopulateStructFromJSON(data, o) }

func newP2Base(name string) psatoken.P2Claims {
	// (a name that is no URI / OID - a built-in profile-1 name under which registration must fail anyway -
	// leaves the profile claim unset instead of stopping the harness)
	var pp *eat.Profile
	p := eat.Profile{}
	if err := p.Set(name); err == nil {
		pp = &p
	}
	return psatoken.P2Claims{
		Profile:          pp,
		SwComponents:     &psatoken.SwComponents[*psatoken.SwComponent]{},
		CanonicalProfile: name,
	}
}

func NewX2Claims() psatoken.IClaims { return &X2Claims{P2Claims: newP2Base(X2Name)} }

type X2Profile struct{}

func (X2Profile) GetName() string             { return X2Name }
func (X2Profile) GetClaims() psatoken.IClaims { return NewX2Claims() }

// ---- X3: P2 rules, nothing added ----
type X3Claims struct {
	psatoken.P2Claims
}

func (o *X3Claims) Validate() error             { return psatoken.ValidateClaims(o) }
func (o X3Claims) MarshalCBOR() ([]byte, error) { return encoding.SerializeStructToCBOR(xem, &o) }
func (o *X3Claims) UnmarshalCBOR(data []byte) error {
	return encoding.PopulateStructFromCBOR(xdm, data, o)
}
func (o X3Claims) MarshalJSON() ([]byte, error)     { return encoding.SerializeStructToJSON(&o) }
func (o *X3Claims) UnmarshalJSON(data []byte) error { return encoding.PopulateStructFromJSON(data, o) }

func NewX3Claims() psatoken.IClaims { return &X3Claims{P2Claims: newP2Base(X3Name)} }

type X3Profile struct{}

func (X3Profile) GetName() string             { return X3Name }
func (X3Profile) GetClaims() psatoken.IClaims { return NewX3Claims() }

// ---- X4: profile-1 rules, profile carried under key 265 / JSON member "my-profile" ----
type X4Claims struct {
	Profile *eat.Profile `cbor:"265,keyasint" json:"my-profile"`
	psatoken.P1Claims
}

func (o X4Claims) MarshalCBOR() ([]byte, error) { return encoding.SerializeStructToCBOR(xem, &o) }
func (o *X4Claims) UnmarshalCBOR(data []byte) error {
	return encoding.PopulateStructFromCBOR(xdm, data, o)
}
func (o X4Claims) MarshalJSON() ([]byte, error)     { return encoding.SerializeStructToJSON(&o) }
func (o *X4Claims) UnmarshalJSON(data []byte) error { return encoding.PopulateStructFromJSON(data, o) }
func (o *X4Claims) Validate() error                 { return psatoken.ValidateClaims(o) }

// ---- X5: a claims type without any profile field (registration must fail) ----
type X5Claims struct {
	psatoken.IClaims
	Foo *int `cbor:"1,keyasint" json:"foo"`
}

// ---- X6: no profile field either, but with an embedded struct (tag discovery must recurse and still fail) ----
type x6Common struct {
	Bar *string `cbor:"2,keyasint" json:"bar"`
}
type X6Claims struct {
	x6Common
	psatoken.IClaims
	Foo *int `cbor:"1,keyasint" json:"foo"`
}

// ---- X7: the base claims live behind an embedded INTERFACE holding a struct pointer ----
type X7Claims struct {
	psatoken.IClaims
	Extra *int `cbor:"-75200,keyasint,omitempty" json:"extra,omitempty"`
}

func (o X7Claims) MarshalCBOR() ([]byte, error) { return encoding.SerializeStructToCBOR(xem, &o) }
func (o *X7Claims) UnmarshalCBOR(data []byte) error {
	return encoding.PopulateStructFromCBOR(xdm, data, o)
}
func (o X7Claims) MarshalJSON() ([]byte, error)     { return encoding.SerializeStructToJSON(&o) }
func (o *X7Claims) UnmarshalJSON(data []byte) error { return encoding.PopulateStructFromJSON(data, o) }

// GenProfile is a profile registered under an arbitrary name with one of the claims kinds.
type GenProfile struct{ Name, Kind string }

func (g GenProfile) GetName() string { return g.Name }
func (g GenProfile) GetClaims() psatoken.IClaims {
	switch g.Kind {
	case "X1":
		n := g.Name
		return &X1Claims{P1Claims: psatoken.P1Claims{Profile: &n,
			SwComponents: &psatoken.SwComponents[*psatoken.SwComponent]{}, CanonicalProfile: g.Name}}
	case "X2":
		return &X2Claims{P2Claims: newP2Base(g.Name)}
	case "X4":
		var pp *eat.Profile
		p := eat.Profile{}
		if err := p.Set(g.Name); err == nil {
			pp = &p
		}
		return &X4Claims{Profile: pp, P1Claims: psatoken.P1Claims{
			SwComponents: &psatoken.SwComponents[*psatoken.SwComponent]{}, CanonicalProfile: g.Name}}
	case "X7":
		b := newP2Base(g.Name)
		return &X7Claims{IClaims: &b}
	case "X5":
		return &X5Claims{}
	case "X6":
		return &X6Claims{}
	}
	panic("unknown kind " + g.Kind)
}
