package main

// Exhaustive setter sweeps (C11, C13): every setter of both profiles and of the component
// over the full value domain, on three pre-states; component getters; FilterError over
// wrapping chains; input-buffer scribbling after decoding (C18).

import (
	"encoding/json"
	"errors"
	"fmt"

	"github.com/veraison/psatoken"
)

type compEv struct {
	B     int            `json:"b"`
	I     int            `json:"i"`
	Op    string         `json:"op"`
	F     string         `json:"f,omitempty"`
	Arg   any            `json:"arg,omitempty"`
	CPre  Comp           `json:"cpre"`
	CPost Comp           `json:"cpost"`
	Ret   Ret            `json:"ret"`
	Get   map[string]Ret `json:"get,omitempty"`
}

func compGetters(sc *psatoken.SwComponent) map[string]Ret {
	g := map[string]Ret{}
	{
		v, err := sc.GetMeasurementType()
		g["mt"] = mkRet(err, absStr(v))
	}
	{
		v, err := sc.GetMeasurementValue()
		g["mv"] = mkRet(err, absBytes(v))
	}
	{
		v, err := sc.GetVersion()
		g["ver"] = mkRet(err, absStr(v))
	}
	{
		v, err := sc.GetSignerID()
		g["sid"] = mkRet(err, absBytes(v))
	}
	{
		v, err := sc.GetMeasurementDesc()
		g["desc"] = mkRet(err, absStr(v))
	}
	return g
}

func init() {
	drivers["claims-sweep"] = func(a *Args) {
		d := loadDomains(a.In)
		t := NewTracer(a.Out)
		cc := Conc{r: a.Rand()}
		b := 0
		for _, p := range []string{"P1", "P2"} {
			pres := []func() psatoken.IClaims{
				func() psatoken.IClaims { c, _ := psatoken.NewClaims(canonOf[p]); return c },
				func() psatoken.IClaims { return cc.BuildLit(d.base(p, "full")) },
				func() psatoken.IClaims { // decoded, invalid in several claims
					s := d.base(p, "full")
					s.Vals["implId"] = hbytes(31, 2)
					s.Vals["lifecycle"] = V{K: "int", I: 65535, S: []any{}}
					s.Vals["vsi"] = V{K: "str", N: 0, S: []any{}}
					c, err := cc.BuildCBOR(s)
					if err != nil {
						fatal("sweep pre-state: %v", err)
					}
					return c
				},
			}
			doSet := func(claim string, av V) {
				for _, mk := range pres {
					c := mk()
					ev := stepEv{B: b, I: 0, Op: "Set", C: claim, Pre: AbsClaims(c), EncPre: encDigest(c)}
					call, passed := cc.setterCall(claim, av)
					ev.Ret = guard(func() Ret { return mkRet(call(c), absent()) }, false)
					ev.Arg = passed
					ev.Post, ev.EncPost = AbsClaims(c), encDigest(c)
					g := getterOf(c, claim)
					ev.GetAfter = &g
					t.Emit(ev, true, true)
					b++
				}
			}
			for _, claim := range []string{"implId", "bootSeed", "nonce", "instId"} {
				for _, n := range sweepLens {
					for b0 := 0; b0 <= 2; b0++ {
						doSet(claim, hbytes(n, b0))
					}
				}
			}
			for _, sh := range d.CertShapes {
				hasX := false
				for _, c := range sh {
					hasX = hasX || c.(string) == "X"
				}
				for k := 0; k < 2 || (hasX && k < len(otherRunes)); k++ {
					if hasX {
						forceX = k
					}
					doSet("certRef", V{K: "text", N: len(sh), S: sh})
					forceX = -1
				}
			}
			for _, n := range []int{0, 1, 2, 46, 300} {
				for cls := 0; cls <= 2; cls++ {
					doSet("vsi", V{K: "str", N: n, B0: cls, S: []any{}})
				}
			}
			for _, v := range []int64{-2147483648, -1, 0, 1, 2147483647} {
				doSet("clientId", V{K: "int", I: v, S: []any{}})
			}
			for _, al := range d.alts(p, "lifecycle") {
				if al.v.K == "int" {
					doSet("lifecycle", al.v)
				}
			}
			// component lists through SetSoftwareComponents (and nil)
			lists := append([][]any{}, d.SwLists...)
			for _, l := range lists {
				comps := swFromAny(l)
				hasNull := false
				for _, x := range comps {
					hasNull = hasNull || x.Nul
				}
				for pi, mk := range pres {
					if pi == 2 && len(comps) > 1 {
						continue
					}
					c := mk()
					real := []psatoken.ISwComponent{}
					absl := []Comp{}
					for _, ac := range comps {
						r := cc.compReal(ac)
						if r == nil {
							real = append(real, (*psatoken.SwComponent)(nil))
						} else {
							real = append(real, r)
						}
						absl = append(absl, absComp(r))
					}
					ev := stepEv{B: b, I: 0, Op: "SetSw", Pre: AbsClaims(c), EncPre: encDigest(c)}
					ev.Ret = guard(func() Ret { return mkRet(c.SetSoftwareComponents(real), absent()) }, false)
					ev.Arg = swArg{L: absl, IsNil: false}
					ev.Post, ev.EncPost = AbsClaims(c), encDigest(c)
					g := getterOf(c, "sw")
					ev.GetAfter = &g
					t.Emit(ev, true, true)
					b++
				}
			}
			for _, mk := range pres {
				c := mk()
				ev := stepEv{B: b, I: 0, Op: "SetSw", Pre: AbsClaims(c), EncPre: encDigest(c)}
				ev.Ret = guard(func() Ret { return mkRet(c.SetSoftwareComponents(nil), absent()) }, false)
				ev.Arg = swArg{L: []Comp{}, IsNil: true}
				ev.Post, ev.EncPost = AbsClaims(c), encDigest(c)
				g := getterOf(c, "sw")
				ev.GetAfter = &g
				t.Emit(ev, true, true)
				b++
			}
		}
		// component setters and getters
		for _, f := range []string{"mv", "sid"} {
			for _, n := range sweepLens {
				for b0 := 0; b0 <= 2; b0 += 2 {
					for pre := 0; pre < 2; pre++ {
						sc := &psatoken.SwComponent{}
						if pre == 1 {
							sc = cc.compReal(Comp{MT: V{K: "str", N: 2, S: []any{}}, MV: hbytes(32, 2), Ver: absent(), SID: hbytes(64, 2), Desc: absent()})
						}
						val := cc.bytes(n, b0)
						ev := compEv{B: b, Op: "CompSet", F: f, Arg: absBytes(val), CPre: absComp(sc)}
						if f == "mv" {
							ev.Ret = mkRet(sc.SetMeasurementValue(val), absent())
						} else {
							ev.Ret = mkRet(sc.SetSignerID(val), absent())
						}
						ev.CPost = absComp(sc)
						t.Emit(ev, true, true)
						b++
					}
				}
			}
		}
		for _, f := range []string{"mt", "ver", "desc"} {
			for _, n := range []int{0, 1, 7, 64} {
				for cls := 0; cls <= 2; cls++ {
					sc := &psatoken.SwComponent{}
					s := cc.str(n, cls)
					ev := compEv{B: b, Op: "CompSet", F: f, Arg: absStr(s), CPre: absComp(sc)}
					switch f {
					case "mt":
						ev.Ret = mkRet(sc.SetMeasurementType(s), absent())
					case "ver":
						ev.Ret = mkRet(sc.SetVersion(s), absent())
					case "desc":
						ev.Ret = mkRet(sc.SetMeasurementDesc(s), absent())
					}
					ev.CPost = absComp(sc)
					t.Emit(ev, true, true)
					b++
				}
			}
		}
		seen := map[string]bool{}
		for _, l := range d.SwLists {
			for _, ac := range swFromAny(l) {
				k, _ := json.Marshal(ac)
				if ac.Nul || seen[string(k)] {
					continue
				}
				seen[string(k)] = true
				sc := cc.compReal(ac)
				ev := compEv{B: b, Op: "CompGet", CPre: absComp(sc), Get: compGetters(sc), Ret: mkRet(nil, absent())}
				ev.CPost = absComp(sc)
				t.Emit(ev, true, true)
				b++
			}
		}
		t.Close(nil)
	}

	// FilterError over wrapping chains enumerated by TLC (spec/Gen_Errors.tla)
	drivers["filter"] = func(a *Args) {
		var doc struct {
			Chains [][]string `json:"chains"`
		}
		bs, err := readFile(a.In)
		if err != nil {
			fatal("%v", err)
		}
		if err := json.Unmarshal(bs, &doc); err != nil {
			fatal("parse chains: %v", err)
		}
		t := NewTracer(a.Out)
		for i, ch := range doc.Chains {
			e := buildErr(ch)
			out := psatoken.FilterError("some value", e)
			res := "other"
			switch {
			case out == nil:
				res = "nil"
			case sameErr(out, e):
				res = "same"
			}
			t.Emit(map[string]any{"b": i, "i": 0, "op": "Filter", "chain": ch, "isNil": e == nil, "cls": classes(e), "out": res}, true, len(ch) > 1)
		}
		// the same chains as what the getters of an extension profile's component type return: component validation
		// (ValidateSwComponent, and through Validate() the container's Add / ValidateSwComponents) must ignore exactly what
		// the filter ignores, whichever sentinel flavour the extension used
		b := len(doc.Chains)
		okc := buildErr([]string{"nil"})
		for fi := 0; fi < 5; fi++ {
			for _, ch := range doc.Chains {
				chains := [5][]string{{"nil"}, {"nil"}, {"nil"}, {"nil"}, {"nil"}}
				chains[fi] = ch
				xc := &xComp{}
				for k := range xc.errs {
					xc.errs[k] = okc
				}
				xc.errs[fi] = buildErr(ch)
				var v1, v2, v3 error
				pan := safely(func() {
					v1 = psatoken.ValidateSwComponent(xc)
					v2 = psatoken.ValidateSwComponents([]psatoken.ISwComponent{xc})
					cont := &psatoken.SwComponents[*xComp]{}
					v3 = cont.Add(xc)
				})
				t.Emit(map[string]any{"b": b, "i": 0, "op": "CompFilter", "field": fi + 1, "chain": ch, "isNil": xc.errs[fi] == nil,
					"direct": mkRet(v1, absent()), "list": mkRet(v2, absent()), "add": mkRet(v3, absent()), "panicked": pan}, true, len(ch) > 1)
				b++
			}
		}
		t.Close(nil)
	}
}

// xComp: a software-component type of an extension profile, written from scratch (it embeds nothing): every getter
// returns the error the test put there (nil = a value), its Validate() is the exported ValidateSwComponent.
type xComp struct{ errs [5]error }

func (c *xComp) Validate() error                     { return psatoken.ValidateSwComponent(c) }
func (c *xComp) GetMeasurementType() (string, error) { return "x", c.errs[0] }
func (c *xComp) GetMeasurementValue() ([]byte, error) {
	return []byte("01234567890123456789012345678901"), c.errs[1]
}
func (c *xComp) GetVersion() (string, error) { return "1", c.errs[2] }
func (c *xComp) GetSignerID() ([]byte, error) {
	return []byte("01234567890123456789012345678901"), c.errs[3]
}
func (c *xComp) GetMeasurementDesc() (string, error) { return "d", c.errs[4] }
func (c *xComp) SetMeasurementType(v string) error   { return nil }
func (c *xComp) SetMeasurementValue(v []byte) error  { return nil }
func (c *xComp) SetVersion(v string) error           { return nil }
func (c *xComp) SetSignerID(v []byte) error          { return nil }
func (c *xComp) SetMeasurementDesc(v string) error   { return nil }

func sameErr(a, b error) (ok bool) {
	defer func() {
		if recover() != nil {
			ok = fmt.Sprintf("%p", a) == fmt.Sprintf("%p", b)
		}
	}()
	return a == b
}

type customErr struct{ inner error }

func (c customErr) Error() string { return "custom(" + c.inner.Error() + ")" }
func (c customErr) Unwrap() error { return c.inner }

type multiErr struct{ inner []error }

func (m multiErr) Error() string   { return "multi" }
func (m multiErr) Unwrap() []error { return m.inner }

type isErr struct{ target error }

func (e isErr) Error() string        { return "is-a(" + e.target.Error() + ")" }
func (e isErr) Is(target error) bool { return target == e.target }

var baseErrs = map[string]error{
	"missingOptional": psatoken.ErrMissingOptional, "missingMandatory": psatoken.ErrMissingMandatory,
	"notInProfile": psatoken.ErrNotInProfile, "wrongProfile": psatoken.ErrWrongProfile, "wrongSyntax": psatoken.ErrWrongSyntax,
	"optClaim": psatoken.ErrOptionalClaimMissing, "manClaim": psatoken.ErrMandatoryClaimMissing,
	"claimNIP": psatoken.ErrClaimNotInProfile, "optField": psatoken.ErrOptionalFieldMissing,
	"manField": psatoken.ErrMandatoryFieldMissing, "fieldNIP": psatoken.ErrFieldNotInProfile,
	"foreign": errors.New("foreign error"),
}

// buildErr builds an error value from a chain description: chain[0] is the base
// ("nil", a sentinel name, "foreign"), the rest are wrappers applied inside-out.
func buildErr(chain []string) error {
	if chain[0] == "nil" {
		return nil
	}
	e := baseErrs[chain[0]]
	if e == nil {
		fatal("unknown base error %q", chain[0])
	}
	for _, w := range chain[1:] {
		switch w {
		case "w": // %w
			e = fmt.Errorf("wrapped: %w", e)
		case "v": // %v: the chain is cut
			e = fmt.Errorf("flattened: %v", e)
		case "join":
			e = errors.Join(errors.New("other"), e)
		case "joinFirst":
			e = errors.Join(e, errors.New("other"))
		case "custom":
			e = customErr{e}
		case "multi":
			e = multiErr{[]error{errors.New("x"), e}}
		case "ww":
			e = fmt.Errorf("two: %w and %w", errors.New("y"), e)
		case "is":
			e = isErr{e}
		default:
			fatal("unknown wrapper %q", w)
		}
	}
	return e
}

// sweepLens: 0..80 exhaustively, and every length that equals a valid size (8..33, 48, 64) modulo 2^8 or 2^16 -
// what a narrowing integer conversion of the length would confuse with it.
var sweepLens = func() []int {
	out := []int{}
	for n := 0; n <= 80; n++ {
		out = append(out, n)
	}
	for _, base := range []int{256, 512, 65536} {
		for n := 0; n <= 34; n++ {
			out = append(out, base+n)
		}
		out = append(out, base+47, base+48, base+49, base+63, base+64, base+65)
	}
	return append(out, 255, 65535)
}()
