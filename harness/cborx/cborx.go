// Package cborx is the harness's own, independent CBOR encoder and reader (RFC 8949).
// It shares no code with fxamacker/cbor, which the library under test uses, so tokens
// assembled here and the parse of emitted tokens are independent of the implementation.
package cborx

import (
	"encoding/binary"
	"errors"
	"fmt"
	"math"
)

// ---------- encoder ----------

// MinW > 0 makes every head written through the typed methods use at least that argument width (1, 2, 4 or 8
// bytes): well-formed but not preferred serialisation, as other encoders may produce it.
type Enc struct {
	B    []byte
	MinW int
}

func (e *Enc) head(major byte, v uint64) {
	m := major << 5
	if e.MinW > 0 {
		w := e.MinW
		for (w == 1 && v > 0xff) || (w == 2 && v > 0xffff) || (w == 4 && v > 0xffffffff) {
			w *= 2
		}
		e.HeadW(major, v, w)
		return
	}
	switch {
	case v < 24:
		e.B = append(e.B, m|byte(v))
	case v <= 0xff:
		e.B = append(e.B, m|24, byte(v))
	case v <= 0xffff:
		e.B = append(e.B, m|25, byte(v>>8), byte(v))
	case v <= 0xffffffff:
		e.B = append(e.B, m|26)
		e.B = binary.BigEndian.AppendUint32(e.B, uint32(v))
	default:
		e.B = append(e.B, m|27)
		e.B = binary.BigEndian.AppendUint64(e.B, v)
	}
}

// HeadW writes a head with an explicit argument width (0 = in the initial byte, 1, 2, 4, 8
// bytes): non-minimal encodings and hostile length declarations.
func (e *Enc) HeadW(major byte, v uint64, width int) {
	m := major << 5
	switch width {
	case 0:
		e.B = append(e.B, m|byte(v&0x1f))
	case 1:
		e.B = append(e.B, m|24, byte(v))
	case 2:
		e.B = append(e.B, m|25, byte(v>>8), byte(v))
	case 4:
		e.B = append(e.B, m|26)
		e.B = binary.BigEndian.AppendUint32(e.B, uint32(v))
	case 8:
		e.B = append(e.B, m|27)
		e.B = binary.BigEndian.AppendUint64(e.B, v)
	default:
		panic("bad width")
	}
}

func (e *Enc) Uint(v uint64) *Enc { e.head(0, v); return e }

// Nint encodes the negative integer -1-n.
func (e *Enc) Nint(n uint64) *Enc { e.head(1, n); return e }
func (e *Enc) Int(v int64) *Enc {
	if v >= 0 {
		return e.Uint(uint64(v))
	}
	return e.Nint(uint64(-1 - v))
}
func (e *Enc) Bstr(b []byte) *Enc { e.head(2, uint64(len(b))); e.B = append(e.B, b...); return e }
func (e *Enc) Tstr(s string) *Enc { e.head(3, uint64(len(s))); e.B = append(e.B, s...); return e }
func (e *Enc) Arr(n int) *Enc     { e.head(4, uint64(n)); return e }
func (e *Enc) Map(n int) *Enc     { e.head(5, uint64(n)); return e }
func (e *Enc) Tag(t uint64) *Enc  { e.head(6, t); return e }
func (e *Enc) Null() *Enc         { e.B = append(e.B, 0xf6); return e }
func (e *Enc) Undef() *Enc        { e.B = append(e.B, 0xf7); return e }
func (e *Enc) Bool(b bool) *Enc {
	if b {
		e.B = append(e.B, 0xf5)
	} else {
		e.B = append(e.B, 0xf4)
	}
	return e
}
func (e *Enc) Simple(v byte) *Enc {
	if v < 24 {
		e.B = append(e.B, 0xe0|v)
	} else {
		e.B = append(e.B, 0xf8, v)
	}
	return e
}
func (e *Enc) Float64(f float64) *Enc {
	e.B = append(e.B, 0xfb)
	e.B = binary.BigEndian.AppendUint64(e.B, math.Float64bits(f))
	return e
}
func (e *Enc) Float32(f float32) *Enc {
	e.B = append(e.B, 0xfa)
	e.B = binary.BigEndian.AppendUint32(e.B, math.Float32bits(f))
	return e
}

// Float16Bits writes a half-precision float given its raw bits.
func (e *Enc) Float16Bits(bits uint16) *Enc {
	e.B = append(e.B, 0xf9, byte(bits>>8), byte(bits))
	return e
}
func (e *Enc) IndefArr() *Enc    { e.B = append(e.B, 0x9f); return e }
func (e *Enc) IndefMap() *Enc    { e.B = append(e.B, 0xbf); return e }
func (e *Enc) IndefBstr() *Enc   { e.B = append(e.B, 0x5f); return e }
func (e *Enc) IndefTstr() *Enc   { e.B = append(e.B, 0x7f); return e }
func (e *Enc) Break() *Enc       { e.B = append(e.B, 0xff); return e }
func (e *Enc) Raw(b []byte) *Enc { e.B = append(e.B, b...); return e }
func (e *Enc) Bytes() []byte     { return e.B }

// ---------- reader ----------

// Node is one parsed data item.
type Node struct {
	Major   byte    // 0..7
	AI      byte    // additional information of the head
	Arg     uint64  // argument (value, length, tag number, simple value or float bits)
	Bytes   []byte  // content of byte / text strings (concatenated when indefinite)
	Items   []*Node // array elements; map keys and values alternate; tag content is Items[0]
	Indef   bool
	Start   int  // offset of the head
	End     int  // offset after the item
	Minimal bool // head uses the shortest argument encoding
}

var ErrTrunc = errors.New("cborx: truncated")

type reader struct {
	b     []byte
	depth int
}

const maxDepth = 4096

func (r *reader) item(off int) (*Node, error) {
	if r.depth > maxDepth {
		return nil, errors.New("cborx: nesting too deep")
	}
	if off >= len(r.b) {
		return nil, ErrTrunc
	}
	ib := r.b[off]
	n := &Node{Major: ib >> 5, AI: ib & 0x1f, Start: off, Minimal: true}
	p := off + 1
	switch {
	case n.AI < 24:
		n.Arg = uint64(n.AI)
	case n.AI == 24:
		if p+1 > len(r.b) {
			return nil, ErrTrunc
		}
		n.Arg = uint64(r.b[p])
		p++
		n.Minimal = n.Arg >= 24
	case n.AI == 25:
		if p+2 > len(r.b) {
			return nil, ErrTrunc
		}
		n.Arg = uint64(binary.BigEndian.Uint16(r.b[p:]))
		p += 2
		n.Minimal = n.Arg > 0xff
	case n.AI == 26:
		if p+4 > len(r.b) {
			return nil, ErrTrunc
		}
		n.Arg = uint64(binary.BigEndian.Uint32(r.b[p:]))
		p += 4
		n.Minimal = n.Arg > 0xffff
	case n.AI == 27:
		if p+8 > len(r.b) {
			return nil, ErrTrunc
		}
		n.Arg = binary.BigEndian.Uint64(r.b[p:])
		p += 8
		n.Minimal = n.Arg > 0xffffffff
	case n.AI == 31:
		if n.Major == 0 || n.Major == 1 || n.Major == 6 {
			return nil, fmt.Errorf("cborx: indefinite length on major type %d", n.Major)
		}
		n.Indef = true
	default:
		return nil, fmt.Errorf("cborx: reserved additional information %d", n.AI)
	}
	if n.Major == 7 {
		n.Minimal = true
		if n.AI == 31 {
			return nil, errors.New("cborx: unexpected break")
		}
		if n.AI == 24 && n.Arg < 32 {
			return nil, errors.New("cborx: invalid simple value")
		}
		n.End = p
		return n, nil
	}
	r.depth++
	defer func() { r.depth-- }()
	switch n.Major {
	case 0, 1:
		n.End = p
	case 2, 3:
		if n.Indef {
			for {
				if p >= len(r.b) {
					return nil, ErrTrunc
				}
				if r.b[p] == 0xff {
					p++
					break
				}
				c, err := r.item(p)
				if err != nil {
					return nil, err
				}
				if c.Major != n.Major || c.Indef {
					return nil, errors.New("cborx: bad chunk in indefinite string")
				}
				n.Bytes = append(n.Bytes, c.Bytes...)
				p = c.End
			}
		} else {
			if n.Arg > uint64(len(r.b)-p) {
				return nil, ErrTrunc
			}
			n.Bytes = r.b[p : p+int(n.Arg)]
			p += int(n.Arg)
		}
		n.End = p
	case 4, 5:
		count := n.Arg
		if n.Major == 5 {
			count *= 2
		}
		for i := uint64(0); n.Indef || i < count; i++ {
			if n.Indef {
				if p >= len(r.b) {
					return nil, ErrTrunc
				}
				if r.b[p] == 0xff {
					if n.Major == 5 && len(n.Items)%2 == 1 {
						return nil, errors.New("cborx: odd number of items in indefinite map")
					}
					p++
					break
				}
			}
			if !n.Indef && count > uint64(len(r.b)) {
				return nil, ErrTrunc
			}
			c, err := r.item(p)
			if err != nil {
				return nil, err
			}
			n.Items = append(n.Items, c)
			p = c.End
		}
		n.End = p
	case 6:
		c, err := r.item(p)
		if err != nil {
			return nil, err
		}
		n.Items = []*Node{c}
		n.End = c.End
	}
	return n, nil
}

// Parse reads exactly one well-formed data item occupying all of b.
func Parse(b []byte) (*Node, error) {
	n, rest, err := ParseFirst(b)
	if err != nil {
		return nil, err
	}
	if rest != 0 {
		return n, fmt.Errorf("cborx: %d trailing bytes", rest)
	}
	return n, nil
}

// ParseFirst reads the first data item of b and returns the number of bytes following it.
func ParseFirst(b []byte) (*Node, int, error) {
	r := &reader{b: b}
	n, err := r.item(0)
	if err != nil {
		return nil, 0, err
	}
	return n, len(b) - n.End, nil
}

// IntVal returns the value of an integer node (major 0 or 1) if it fits int64.
func (n *Node) IntVal() (int64, bool) {
	switch n.Major {
	case 0:
		if n.Arg > math.MaxInt64 {
			return 0, false
		}
		return int64(n.Arg), true
	case 1:
		if n.Arg > math.MaxInt64 {
			return 0, false
		}
		return -1 - int64(n.Arg), true
	}
	return 0, false
}

// TypeName names the item's type for the abstract wire form.
func (n *Node) TypeName() string {
	switch n.Major {
	case 0:
		return "uint"
	case 1:
		return "nint"
	case 2:
		return "bstr"
	case 3:
		return "tstr"
	case 4:
		return "arr"
	case 5:
		return "map"
	case 6:
		return "tag"
	}
	switch {
	case n.AI == 20 || n.AI == 21:
		return "bool"
	case n.AI == 22:
		return "null"
	case n.AI == 23:
		return "undef"
	case n.AI == 25 || n.AI == 26 || n.AI == 27:
		return "float"
	}
	return "simple"
}
