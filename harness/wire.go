package main

// Wire-level helpers: turning the item descriptors TLC generates into CBOR bytes with the
// independent encoder, and projecting CBOR bytes (parsed by the independent reader) to the
// abstract items of spec/PsaWire.tla.

import (
	"fmt"
	"math"
	"unicode/utf8"

	"verif/harness/cborx"
)

type Item struct {
	T     string `json:"t"`
	N     int    `json:"n"`
	B0    int    `json:"b0"`
	V     int64  `json:"v"`
	W     string `json:"w"`
	NR    int    `json:"nr"`
	S     []any  `json:"s"`
	Str   string `json:"str"`
	UTF8  bool   `json:"utf8"`
	H     string `json:"h"`
	Indef bool   `json:"indef"`
	Items []Item `json:"items"`
	Pairs []Pair `json:"pairs"`
}

type Pair struct {
	K  Item `json:"k"`
	It Item `json:"it"`
}

func newItem(t string) Item {
	return Item{T: t, W: "na", S: []any{}, UTF8: true, Items: []Item{}, Pairs: []Pair{}}
}

func printable(s string) bool {
	for i := 0; i < len(s); i++ {
		if s[i] < 0x20 || s[i] > 0x7e || s[i] == '"' || s[i] == '\\' {
			return false
		}
	}
	return true
}

func float16to64(bits uint16) float64 {
	sign := uint64(bits>>15) & 1
	exp := int(bits>>10) & 0x1f
	frac := uint64(bits & 0x3ff)
	var f float64
	switch {
	case exp == 0:
		f = math.Ldexp(float64(frac), -24)
	case exp == 31:
		if frac == 0 {
			f = math.Inf(1)
		} else {
			f = math.NaN()
		}
	default:
		f = math.Ldexp(float64(frac+1024), exp-25)
	}
	if sign == 1 {
		f = -f
	}
	return f
}

// absItem projects a parsed CBOR node.
func absItem(n *cborx.Node) Item {
	it := newItem(n.TypeName())
	it.Indef = n.Indef
	switch n.Major {
	case 0:
		switch {
		case n.Arg <= 65535:
			it.W, it.V = "u16", int64(n.Arg)
		case n.Arg <= math.MaxInt32:
			it.W, it.V = "i32", int64(n.Arg)
		case n.Arg <= math.MaxUint32:
			it.W = "u32"
		default:
			it.W = "u64"
		}
		it.H = hx(uint64Bytes(n.Arg))
	case 1:
		if n.Arg <= math.MaxInt32 {
			it.W, it.V = "i32", -1-int64(n.Arg)
		} else {
			it.W = "big"
		}
		it.H = hx(uint64Bytes(n.Arg))
	case 2:
		it.N, it.B0, it.H = len(n.Bytes), b0Class(n.Bytes), hx(n.Bytes)
	case 3:
		s := string(n.Bytes)
		it.N, it.B0, it.H = len(s), strClass(s), hx(n.Bytes)
		it.UTF8 = utf8.ValidString(s)
		it.S = shapeOf(s)
		it.NR = len(it.S)
		if len(s) <= 80 && it.UTF8 && printable(s) {
			it.Str = s
		}
	case 4:
		it.N = len(n.Items)
		u8 := make([]byte, 0, len(n.Items))
		for _, c := range n.Items {
			it.Items = append(it.Items, absItem(c))
			if c.Major == 0 && c.Arg < 256 && u8 != nil {
				u8 = append(u8, byte(c.Arg))
			} else {
				u8 = nil
			}
		}
		if u8 != nil {
			// an array of small unsigned integers: the byte string it would spell (finding D9)
			it.W, it.B0, it.H = "u8s", b0Class(u8), hx(u8)
		}
	case 5:
		it.N = len(n.Items) / 2
		for i := 0; i+1 < len(n.Items); i += 2 {
			it.Pairs = append(it.Pairs, Pair{K: absItem(n.Items[i]), It: absItem(n.Items[i+1])})
		}
	case 6:
		if n.Arg <= math.MaxInt32 {
			it.V = int64(n.Arg)
		}
		it.Items = append(it.Items, absItem(n.Items[0]))
	case 7:
		switch it.T {
		case "bool":
			if n.AI == 21 {
				it.V = 1
			}
		case "float":
			var f float64
			switch n.AI {
			case 25:
				f = float16to64(uint16(n.Arg))
			case 26:
				f = float64(math.Float32frombits(uint32(n.Arg)))
			default:
				f = math.Float64frombits(n.Arg)
			}
			switch {
			case math.IsNaN(f):
				it.W = "nan"
			case math.IsInf(f, 0):
				it.W = "inf"
			case f == math.Trunc(f):
				it.W = "integral"
				if math.Abs(f) <= math.MaxInt32 {
					it.V = int64(f)
				}
			default:
				it.W = "frac"
			}
		case "simple":
			it.V = int64(n.Arg)
		}
	}
	return it
}

func uint64Bytes(v uint64) []byte {
	b := make([]byte, 8)
	for i := 0; i < 8; i++ {
		b[7-i] = byte(v >> (8 * i))
	}
	return b
}

// ---------- descriptors -> bytes ----------

type Desc struct {
	D  string `json:"d"`
	N  int    `json:"n"`
	B0 int    `json:"b0"`
	V  int64  `json:"v"`
	S  []any  `json:"s"`
}

func descFromAny(x any) Desc {
	m := x.(map[string]any)
	d := Desc{D: m["d"].(string), N: int(m["n"].(float64)), B0: int(m["b0"].(float64)), V: int64(m["v"].(float64))}
	if s, ok := m["s"].([]any); ok {
		d.S = s
	}
	return d
}

func (c Conc) encDesc(e *cborx.Enc, d Desc) {
	switch d.D {
	case "none":
		panic("encDesc(none)")
	case "null":
		e.Null()
	case "undef":
		e.Undef()
	case "bool":
		e.Bool(d.V != 0)
	case "bstr":
		e.Bstr(c.bytes(d.N, d.B0))
	case "tstrShape":
		e.Tstr(c.text(d.S))
	case "tstrLen":
		e.Tstr(c.str(d.N, d.B0))
	case "tstrName":
		e.Tstr(d.S[0].(string))
	case "tstrBadUtf8":
		e.HeadW(3, 3, 0)
		e.Raw([]byte{'a', 0xff, 'b'})
	case "int":
		e.Int(d.V)
	case "wide":
		switch d.S[0].(string) {
		case "u31":
			e.Uint(1 << 31)
		case "u32max":
			e.Uint(math.MaxUint32)
		case "u32":
			e.Uint(1 << 32)
		case "u64max":
			e.Uint(math.MaxUint64)
		case "u63":
			e.Uint(1 << 63)
		case "n33":
			e.Nint(1 << 31) // -2^31-1
		case "n64min":
			e.Nint(math.MaxUint64) // -2^64
		}
	case "float":
		switch d.S[0].(string) {
		case "integral":
			e.Float64(float64(d.V))
		case "frac":
			e.Float64(float64(d.V) + 0.5)
		case "nan":
			e.Float64(math.NaN())
		case "inf":
			e.Float64(math.Inf(1))
		case "half":
			e.Float16Bits(0x3c00) // 1.0
		case "single":
			e.Float32(float32(d.V))
		}
	case "arrU8":
		e.Arr(d.N)
		for i := 0; i < d.N; i++ {
			e.Uint(uint64(c.r.Intn(24)))
		}
	case "arr", "indefArr":
		if d.D == "arr" {
			e.Arr(len(d.S))
		} else {
			e.IndefArr()
		}
		for _, x := range d.S {
			c.encDesc(e, descFromAny(x))
		}
		if d.D == "indefArr" {
			e.Break()
		}
	case "mapEmpty":
		e.Map(0)
	case "tag":
		e.Tag(uint64(d.V))
		c.encDesc(e, descFromAny(d.S[0]))
	case "indefBstr":
		e.IndefBstr().Bstr(c.bytes(d.N/2, 2)).Bstr(c.bytes(d.N-d.N/2, 2)).Break()
	case "indefTstr":
		s := c.str(d.N, 0)
		e.IndefTstr().Tstr(s[:d.N/2]).Tstr(s[d.N/2:]).Break()
	case "comp", "indefComp":
		n := 0
		for _, x := range d.S {
			if descFromAny(x.(map[string]any)["it"]).D != "none" {
				n++
			}
		}
		if d.D == "comp" {
			e.Map(n)
		} else {
			e.IndefMap()
		}
		for _, x := range d.S {
			kv := x.(map[string]any)
			it := descFromAny(kv["it"])
			if it.D == "none" {
				continue
			}
			c.encDesc(e, descFromAny(kv["k"]))
			c.encDesc(e, it)
		}
		if d.D == "indefComp" {
			e.Break()
		}
	default:
		panic("unknown descriptor " + d.D)
	}
}

// tokEntry is one entry of a token under construction.
type tokEntry struct {
	key Desc
	it  Desc
	dev string // label of the deviation this entry carries ("" = base value)
}

// descLabel is a compact, stable name of a descriptor (used in event signatures).
func descLabel(d Desc) string {
	switch d.D {
	case "bstr", "arrU8", "indefBstr", "indefTstr":
		return fmt.Sprintf("%s(%d,%d)", d.D, d.N, d.B0)
	case "tstrLen":
		return fmt.Sprintf("tstr(%d,%d)", d.N, d.B0)
	case "tstrShape":
		sh := ""
		for _, x := range d.S {
			sh += x.(string)
		}
		return "tstr[" + sh + "]"
	case "tstrName":
		return "tstr'" + d.S[0].(string) + "'"
	case "int":
		return fmt.Sprintf("int(%d)", d.V)
	case "wide", "float":
		return fmt.Sprintf("%s(%s,%d)", d.D, d.S[0], d.V)
	case "tag":
		return fmt.Sprintf("tag%d(%s)", d.V, descLabel(descFromAny(d.S[0])))
	case "arr", "indefArr":
		l := d.D + "["
		for i, x := range d.S {
			if i > 0 {
				l += ","
			}
			l += descLabel(descFromAny(x))
		}
		return l + "]"
	case "comp", "indefComp":
		l := d.D + "{"
		for i, x := range d.S {
			kv := x.(map[string]any)
			if i > 0 {
				l += ","
			}
			l += descLabel(descFromAny(kv["k"])) + ":" + descLabel(descFromAny(kv["it"]))
		}
		return l + "}"
	}
	return d.D
}

func (c Conc) encToken(entries []tokEntry, indef bool) []byte {
	e := &cborx.Enc{MinW: c.minW}
	n := 0
	for _, en := range entries {
		if en.it.D != "none" {
			n++
		}
	}
	if indef {
		e.IndefMap()
	} else {
		e.Map(n)
	}
	for _, en := range entries {
		if en.it.D == "none" {
			continue
		}
		c.encDesc(e, en.key)
		c.encDesc(e, en.it)
	}
	if indef {
		e.Break()
	}
	return e.Bytes()
}

func intDesc(v int64) Desc { return Desc{D: "int", V: v} }

// descOfV gives the canonical descriptor of an abstract claim value (for base tokens).
func descOfV(v V) Desc {
	switch v.K {
	case "bytes":
		return Desc{D: "bstr", N: v.N, B0: v.B0}
	case "int":
		return intDesc(v.I)
	case "text":
		return Desc{D: "tstrShape", N: len(v.S), S: v.S}
	case "str":
		return Desc{D: "tstrLen", N: v.N, B0: v.B0}
	case "prof":
		return Desc{D: "tstrName", S: v.S}
	case "nonces":
		if v.N == 1 {
			return descOfV(v.S[0].(V))
		}
		l := []any{}
		for _, x := range v.S {
			l = append(l, descAny(descOfV(x.(V))))
		}
		return Desc{D: "arr", N: len(l), S: l}
	}
	return Desc{D: "none"}
}

func descAny(d Desc) any {
	s := d.S
	if s == nil {
		s = []any{}
	}
	return map[string]any{"d": d.D, "n": float64(d.N), "b0": float64(d.B0), "v": float64(d.V), "s": s}
}

func descOfComp(a Comp) Desc {
	pairs := []any{}
	add := func(k int64, v V) {
		if v.K != "abs" {
			pairs = append(pairs, map[string]any{"k": descAny(intDesc(k)), "it": descAny(descOfV(v))})
		}
	}
	add(1, a.MT)
	add(2, a.MV)
	add(4, a.Ver)
	add(5, a.SID)
	add(6, a.Desc)
	return Desc{D: "comp", N: len(pairs), S: pairs}
}

// baseEntries renders a claims description as token entries in emission order.
func baseEntries(s CSpec) []tokEntry {
	out := []tokEntry{}
	keys := cborKeys[s.P]
	for _, c := range claimOrder {
		k, ok := keys[c]
		if !ok {
			continue
		}
		if c == "sw" {
			if len(s.Sw) > 0 {
				l := []any{}
				for _, a := range s.Sw {
					l = append(l, descAny(descOfComp(a)))
				}
				out = append(out, tokEntry{intDesc(k), Desc{D: "arr", N: len(l), S: l}, ""})
			}
			continue
		}
		v, ok := s.Vals[c]
		if !ok || v.K == "abs" {
			continue
		}
		out = append(out, tokEntry{intDesc(k), descOfV(v), ""})
	}
	return out
}
