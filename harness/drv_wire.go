package main

// Driver for C04 / C07 (CBOR side): tokens assembled by the independent encoder from the
// item classes TLC exports (spec/Gen_Wire.tla), fed to the dispatching decoders.

import (
	"bytes"
	"encoding/base64"
	"encoding/json"
	"fmt"
	"sort"
	"strconv"
	"strings"

	"verif/harness/cborx"

	"github.com/veraison/psatoken"
)

type wireDoc struct {
	Dom      map[string]map[string][]any `json:"dom"`
	Selector []any                       `json:"selector"`
	Extras   []any                       `json:"extras"`
}

type regEntry struct {
	Name  string `json:"name"`
	P     string `json:"p"`
	Canon string `json:"canon"`
	Impl  string `json:"impl"`
	Tag   string `json:"tag"`
}

func implName(c psatoken.IClaims) string {
	switch c.(type) {
	case *psatoken.P1Claims:
		return "P1"
	case *psatoken.P2Claims:
		return "P2"
	case *X1Claims:
		return "X1"
	case *X2Claims:
		return "X2"
	case *X3Claims:
		return "X3"
	case *X4Claims:
		return "X4"
	case *X5Claims:
		return "X5"
	case *X6Claims:
		return "X6"
	case *X7Claims:
		return "X7"
	}
	return "?"
}

// currentReg projects the profile register (through the verif hook).
func currentReg() []regEntry {
	out := []regEntry{}
	for _, e := range psatoken.VerifRegisterSnapshot() {
		c := e.Profile.GetClaims()
		o := Obj{P: "?", Canon: "?"}
		if !noProfileKind(c) {
			o = AbsClaims(c)
		}
		impl := implName(c)
		if g, ok := e.Profile.(GenProfile); ok {
			impl = g.Kind
		}
		out = append(out, regEntry{Name: e.Name, P: o.P, Canon: o.Canon, Impl: impl, Tag: e.JSONTag})
	}
	// deterministic order
	for i := range out {
		for j := i + 1; j < len(out); j++ {
			if out[j].Name < out[i].Name {
				out[i], out[j] = out[j], out[i]
			}
		}
	}
	return out
}

func registerExtras(list string) {
	for _, n := range strings.Split(list, ",") {
		var err error
		switch strings.TrimSpace(n) {
		case "":
		case "X1":
			err = psatoken.RegisterProfile(X1Profile{})
		case "X2":
			err = psatoken.RegisterProfile(X2Profile{})
		case "X3":
			err = psatoken.RegisterProfile(X3Profile{})
		default:
			fatal("unknown extension %q", n)
		}
		if err != nil {
			fatal("register %s: %v", n, err)
		}
	}
}

type decRes struct {
	OK   bool     `json:"ok"`
	Cls  []string `json:"cls"`
	Impl string   `json:"impl"`
	Obj  *Obj     `json:"obj,omitempty"`
}

type decodeEv struct {
	B    int              `json:"b"`
	I    int              `json:"i"`
	Op   string           `json:"op"`
	Src  string           `json:"src"`
	Tok  Item             `json:"tok"`
	Reg  []regEntry       `json:"reg"`
	Dec  decRes           `json:"dec"`
	Val  decRes           `json:"val"`
	Get  map[string]Ret   `json:"get"`
	CGet []map[string]Ret `json:"cget"`
	VRet Ret              `json:"vret"`
	Hex  string           `json:"hex,omitempty"`
	Dev  []string         `json:"dev"`
	// after the call: two fixed conformant tokens (one per built-in profile) are still accepted, by the right
	// implementation, with the same values - what is accepted does not depend on earlier calls
	ProbeOK bool `json:"probeOK"`
}

type probeTok struct {
	buf  []byte
	impl string
	obj  Obj
}

var cborProbes []probeTok

func setCBORProbes(cc Conc, d *domains) {
	cborProbes = nil
	for _, p := range []string{"P1", "P2"} {
		buf := cc.DocCBOR(d.base(p, "minimal"))
		c, err, pan := guardDec(func() (psatoken.IClaims, error) {
			return psatoken.DecodeAndValidateClaimsFromCBOR(append([]byte{}, buf...))
		})
		if err != nil || pan || c == nil {
			// a conformant token that is refused from the start: every event will report the probes as failing
			cborProbes = append(cborProbes, probeTok{buf, "refused-at-setup", Obj{}})
			continue
		}
		cborProbes = append(cborProbes, probeTok{buf, implName(c), AbsClaims(c)})
	}
}

func probesOK() bool {
	ok := true
	for _, pt := range cborProbes {
		c, err, pan := guardDec(func() (psatoken.IClaims, error) {
			return psatoken.DecodeAndValidateClaimsFromCBOR(append([]byte{}, pt.buf...))
		})
		if pan || err != nil || c == nil || implName(c) != pt.impl || !jsonEq(AbsClaims(c), pt.obj) {
			ok = false
		}
	}
	return ok
}

func guardDec(f func() (psatoken.IClaims, error)) (c psatoken.IClaims, err error, panicked bool) {
	defer func() {
		if p := recover(); p != nil {
			c, err, panicked = nil, nil, true
		}
	}()
	c, err = f()
	return
}

func mkDecRes(c psatoken.IClaims, err error, panicked bool) decRes {
	if panicked {
		return decRes{OK: false, Cls: []string{"PANIC"}}
	}
	if err != nil || c == nil {
		return decRes{OK: false, Cls: classes(err)}
	}
	o := AbsClaims(c)
	return decRes{OK: true, Cls: []string{}, Impl: implName(c), Obj: &o}
}

var emptyGet = func() map[string]Ret {
	g := map[string]Ret{}
	for _, c := range []string{"profile", "clientId", "lifecycle", "implId", "bootSeed", "certRef", "nonce", "instId", "vsi"} {
		g[c] = Ret{OK: false, Cls: []string{}, Val: absent()}
	}
	g["sw"] = Ret{OK: false, Cls: []string{}, Val: []Comp{}}
	return g
}()

// observeDecodeCBOR feeds token bytes to the dispatching decoders and records the outcome.
func observeDecodeCBOR(b int, src string, buf []byte, reg []regEntry) (decodeEv, psatoken.IClaims, bool) {
	node, err := cborx.Parse(buf)
	if err != nil {
		return decodeEv{}, nil, false
	}
	ev := decodeEv{B: b, Op: "DecodeCBOR", Src: src, Tok: absItem(node), Reg: reg}
	c, derr, pan := guardDec(func() (psatoken.IClaims, error) { return psatoken.DecodeClaimsFromCBOR(append([]byte{}, buf...)) })
	ev.Dec = mkDecRes(c, derr, pan)
	c2, verr, pan2 := guardDec(func() (psatoken.IClaims, error) {
		return psatoken.DecodeAndValidateClaimsFromCBOR(append([]byte{}, buf...))
	})
	ev.Val = mkDecRes(c2, verr, pan2)
	if ev.Dec.OK {
		ev.Get = safeGetters(c)
		ev.CGet = compGettersOf(c)
		ev.VRet = safeValidate(c)
	} else {
		ev.Get = emptyGet
		ev.CGet = []map[string]Ret{}
		ev.VRet = Ret{OK: false, Cls: []string{}, Val: absent()}
	}
	if len(buf) <= 400 {
		ev.Hex = hexs(buf)
	}
	ev.ProbeOK = probesOK()
	return ev, c, true
}

func init() {
	drivers["wire-decode"] = func(a *Args) {
		var w wireDoc
		loadJSON(a.In, &w)
		d := loadDomains(a.In2)
		registerExtras(a.Reg)
		reg := currentReg()
		t := NewTracer(a.Out)
		cc := Conc{r: a.Rand()}
		setCBORProbes(cc, d)
		b := 0
		skipped := 0
		bysrc := map[string]int{}
		rt, rtOnly := a.hasRest("rt") || a.hasRest("rtonly"), a.hasRest("rtonly")
		emit := func(src string, entries []tokEntry, indef bool) {
			buf := cc.encToken(entries, indef)
			ev, decoded, ok := observeDecodeCBOR(b, src, buf, reg)
			if !ok {
				skipped++
				return
			}
			ev.Dev = []string{}
			for _, en := range entries {
				if en.dev != "" {
					ev.Dev = append(ev.Dev, en.dev)
				}
			}
			sort.Strings(ev.Dev)
			b++
			bysrc[src]++
			if !rtOnly {
				t.Emit(ev, true, !ev.Val.OK || len(entries) > 12)
			}
			if rt && ev.Dec.OK {
				// C09: whatever decoded is encoded again, decoded again, encoded again
				rev := observeEncodeCBOR(b, "decoded:"+src, "dispatch", decoded)
				b++
				t.Emit(rev, true, !rev.VRet.OK)
			}
		}
		shuffle := func(e []tokEntry) []tokEntry {
			o := append([]tokEntry{}, e...)
			cc.r.Shuffle(len(o), func(i, j int) { o[i], o[j] = o[j], o[i] })
			return o
		}
		replace := func(e []tokEntry, key int64, it Desc) []tokEntry {
			o := []tokEntry{}
			done := false
			for _, x := range e {
				if x.key.D == "int" && x.key.V == key {
					o = append(o, tokEntry{x.key, it, fmt.Sprintf("%d=%s", key, descLabel(it))})
					done = true
				} else {
					o = append(o, x)
				}
			}
			if !done {
				o = append(o, tokEntry{intDesc(key), it, fmt.Sprintf("%d=%s", key, descLabel(it))})
			}
			return o
		}
		extrasAll := []tokEntry{}
		for _, x := range w.Extras {
			kv := x.(map[string]any)
			extrasAll = append(extrasAll, tokEntry{descFromAny(kv["k"]), descFromAny(kv["it"]), "extra:" + descLabel(descFromAny(kv["k"]))})
		}
		thorough := a.Tier == "thorough"
		profiles := []string{"P1", "P2"}
		if strings.Contains(a.Reg, "X2") {
			profiles = append(profiles, "X2")
		}
		for _, pp := range profiles {
			p := pp
			if pp == "X2" {
				p = "P2" // X2 = profile-2 rules under another name, plus one optional integer claim
			}
			keys := cborKeys[p]
			bases := map[string][]tokEntry{}
			for _, kind := range []string{"full", "minimal", "nosw"} {
				bases[kind] = baseEntries(d.base(p, kind))
				if pp == "X2" {
					bases[kind] = replace(bases[kind], 265, Desc{D: "tstrName", S: []any{X2Name}})
					if kind == "full" {
						bases[kind] = append(bases[kind], tokEntry{intDesc(-75100), intDesc(1721138454), ""})
					}
				}
				emit("base:"+kind+":"+pp, bases[kind], false)
				emit("base-indef:"+kind, bases[kind], true)
				for k := 0; k < 4; k++ {
					emit("order:"+kind, shuffle(bases[kind]), false)
				}
				// the same token in non-preferred serialisation: every head (keys, lengths, integers) 1, 2, 4, 8 bytes wide
				for _, mw := range []int{1, 2, 4, 8} {
					if pp == "X2" && mw == 8 {
						// the embedding-aware reader refuses a map head with an 8-byte length by design (PsaCodecReader!ArgBytes(27) = -1 is an
						// error; exercised by codec-reader) - no listed property speaks about it for extension profiles
						continue
					}
					cc.minW = mw
					emit(fmt.Sprintf("width%d:%s", mw, kind), bases[kind], false)
					emit(fmt.Sprintf("width%d:%s", mw, kind), shuffle(bases[kind]), false)
				}
				cc.minW = 0
				rev := append([]tokEntry{}, bases[kind]...)
				for i, j := 0, len(rev)-1; i < j; i, j = i+1, j-1 {
					rev[i], rev[j] = rev[j], rev[i]
				}
				emit("order:"+kind, rev, false)
			}
			claims := []string{}
			for _, c := range claimOrder {
				if _, ok := keys[c]; ok {
					claims = append(claims, c)
				}
			}
			dom := map[string][]Desc{}
			for _, c := range claims {
				for _, x := range w.Dom[p][c] {
					dom[c] = append(dom[c], descFromAny(x))
				}
			}
			// singles on every base
			for _, kind := range []string{"full", "minimal", "nosw"} {
				for _, c := range claims {
					for _, it := range dom[c] {
						emit("single:"+kind, replace(bases[kind], keys[c], it), false)
					}
				}
			}
			if pp == "X2" {
				for _, kind := range []string{"full", "minimal"} {
					emit("single:"+kind, replace(bases[kind], -75100, intDesc(0)), false)
					emit("single:"+kind, replace(bases[kind], -75100, Desc{D: "none"}), false)
				}
			}
			// the dispatch selector (key 265)
			for _, kind := range []string{"full", "minimal"} {
				if pp == "X2" {
					break
				}
				for _, x := range w.Selector {
					emit("selector:"+kind, replace(bases[kind], 265, descFromAny(x)), false)
					// ... and with the selector's key (and everything else) in a wider encoding
					cc.minW = []int{2, 4, 8}[cc.r.Intn(3)]
					emit("selector-wide:"+kind, replace(bases[kind], 265, descFromAny(x)), false)
					// ... and on the other profile's claims (a token is validated under the profile it declares)
					if ob := otherBase(d, p, kind); ob != nil && cc.r.Intn(2) == 0 {
						emit("selector-wide-cross:"+kind, replace(ob, 265, descFromAny(x)), false)
					}
					cc.minW = 0
				}
			}
			// pairs on the full base
			for i, c1 := range claims {
				if a.hasRest("nopairs") {
					break
				}
				for _, c2 := range claims[i+1:] {
					for _, i1 := range dom[c1] {
						for _, i2 := range dom[c2] {
							if !thorough && (c1 == "sw" || c2 == "sw") && cc.r.Intn(4) != 0 {
								continue
							}
							emit("pair", replace(replace(bases["full"], keys[c1], i1), keys[c2], i2), false)
						}
					}
				}
			}
			// unknown extra keys: each alone, pairs, many. (For the extension profile only integer keys:
			// the embedding-aware codec reads every key as an integer, and no listed property speaks
			// about text keys in extension tokens.)
			extras := extrasAll
			if pp == "X2" {
				extras = []tokEntry{}
				for _, x := range extrasAll {
					if x.key.D == "int" {
						extras = append(extras, x)
					}
				}
			}
			for _, kind := range []string{"full", "minimal"} {
				for _, x := range extras {
					e := append(append([]tokEntry{}, bases[kind]...), x)
					emit("extra:"+kind, shuffle(e), false)
				}
			}
			for i := range extras {
				for j := i + 1; j < len(extras); j++ {
					e := append(append([]tokEntry{}, bases["full"]...), extras[i], extras[j])
					emit("extra2", shuffle(e), false)
				}
			}
			for _, n := range []int{5, 7, 20, 50, 300} {
				e := append([]tokEntry{}, bases["full"]...)
				for k := 0; k < n; k++ {
					e = append(e, tokEntry{intDesc(int64(3000 + k)), Desc{D: "bstr", N: 3, B0: 2}, ""})
				}
				emit("extra-many", shuffle(e), false)
			}
			// deep unknown value
			{
				var nest any = descAny(Desc{D: "int", V: 1})
				for k := 0; k < 12; k++ {
					nest = descAny(Desc{D: "arr", N: 1, S: []any{nest}})
				}
				e := append(append([]tokEntry{}, bases["full"]...), tokEntry{intDesc(4000), descFromAny(nest), "extra:deep"})
				emit("extra-deep", e, false)
			}
			// mixed-profile key sets: the other profile's entries are unknown keys
			other := map[string]string{"P1": "P2", "P2": "P1"}[p]
			for _, kind := range []string{"full", "minimal"} {
				ob := baseEntries(d.base(other, "full"))
				mixed := append([]tokEntry{}, bases[kind]...)
				for _, x := range ob {
					if !(x.key.V == 265 && p == "P1") { // adding key 265 to a P1 token would redirect dispatch: covered by "selector"
						mixed = append(mixed, x)
					}
				}
				emit("mixed:"+kind, mixed, false)
				emit("mixed:"+kind, shuffle(mixed), false)
			}
			// random combinations
			nrand := 6000
			if thorough {
				nrand = 150000
			}
			if a.N > 0 {
				nrand = a.N
			}
			for k := 0; k < nrand; k++ {
				e := append([]tokEntry{}, bases[[]string{"full", "minimal", "nosw"}[cc.r.Intn(3)]]...)
				nd := 1 + cc.r.Intn(4)
				for j := 0; j < nd; j++ {
					c := claims[cc.r.Intn(len(claims))]
					e = replace(e, keys[c], dom[c][cc.r.Intn(len(dom[c]))])
				}
				if cc.r.Intn(3) == 0 {
					e = append(e, extras[cc.r.Intn(len(extras))])
				}
				if cc.r.Intn(2) == 0 {
					e = shuffle(e)
				}
				if cc.r.Intn(8) == 0 {
					cc.minW = []int{1, 2, 4, 8}[cc.r.Intn(4)]
					if pp == "X2" && cc.minW == 8 {
						cc.minW = 4
					}
				}
				emit("random", e, false)
				cc.minW = 0
			}
		}
		t.Close(map[string]any{"by_source": bysrc, "skipped": skipped})
	}
}

type decodeJSONEv struct {
	B    int              `json:"b"`
	I    int              `json:"i"`
	Op   string           `json:"op"`
	Src  string           `json:"src"`
	Doc  JMember          `json:"doc"`
	Reg  []regEntry       `json:"reg"`
	Dec  decRes           `json:"dec"`
	Val  decRes           `json:"val"`
	Get  map[string]Ret   `json:"get"`
	CGet []map[string]Ret `json:"cget"`
	VRet Ret              `json:"vret"`
	Outs []string         `json:"outs"`      // distinct dispatch outcomes over repeated calls (Go map order)
	Fold bool             `json:"foldAlias"` // some member name equals a known one only up to case folding (no value verdict)
	// after the call: two fixed conformant documents are still accepted by the right implementation with the same values
	ProbeOK bool `json:"probeOK"`
}

var jsonProbes []probeTok

// otherBase: the base entries of the other built-in profile (without its own selector entry)
func otherBase(d *domains, p, kind string) []tokEntry {
	other := map[string]string{"P1": "P2", "P2": "P1"}[p]
	o := []tokEntry{}
	for _, x := range baseEntries(d.base(other, kind)) {
		if !(x.key.D == "int" && x.key.V == 265) {
			o = append(o, x)
		}
	}
	return o
}

func setJSONProbes(cc Conc, d *domains) {
	jsonProbes = nil
	for _, p := range []string{"P1", "P2"} {
		buf := cc.DocJSON(d.base(p, "minimal"))
		c, err, pan := guardDec(func() (psatoken.IClaims, error) {
			return psatoken.DecodeAndValidateClaimsFromJSON(append([]byte{}, buf...))
		})
		if err != nil || pan || c == nil {
			jsonProbes = append(jsonProbes, probeTok{buf, "refused-at-setup", Obj{}})
			continue
		}
		jsonProbes = append(jsonProbes, probeTok{buf, implName(c), AbsClaims(c)})
	}
}

func jsonProbesOK() bool {
	ok := true
	for _, pt := range jsonProbes {
		c, err, pan := guardDec(func() (psatoken.IClaims, error) {
			return psatoken.DecodeAndValidateClaimsFromJSON(append([]byte{}, pt.buf...))
		})
		if pan || err != nil || c == nil || implName(c) != pt.impl || !jsonEq(AbsClaims(c), pt.obj) {
			ok = false
		}
	}
	return ok
}

// jsonDesc renders a descriptor of spec/Gen_Json.tla as JSON text.
func (c Conc) jsonDesc(d Desc) string {
	q := func(s string) string { b, _ := json.Marshal(s); return string(b) }
	switch d.D {
	case "null":
		return "null"
	case "bool":
		return "true"
	case "b64":
		return q(base64.StdEncoding.EncodeToString(c.bytes(d.N, d.B0)))
	case "b64url":
		b := c.bytes(d.N, 2)
		for i := range b { // make sure the URL-safe alphabet shows
			b[i] |= 0xfb
		}
		return q(base64.RawURLEncoding.EncodeToString(b))
	case "notb64":
		return q("@@@not base64@@@")
	case "num":
		return strconv.FormatInt(d.V, 10)
	case "lit":
		return d.S[0].(string)
	case "strShape":
		return q(c.text(d.S))
	case "strLen":
		return q(c.str(d.N, d.B0))
	case "strName":
		return q(d.S[0].(string))
	case "arr":
		parts := []string{}
		for _, x := range d.S {
			parts = append(parts, c.jsonDesc(descFromAny(x)))
		}
		return "[" + strings.Join(parts, ",") + "]"
	case "obj":
		parts := []string{}
		for _, x := range d.S {
			kv := x.(map[string]any)
			it := descFromAny(kv["it"])
			if it.D == "none" {
				continue
			}
			parts = append(parts, q(kv["k"].(string))+":"+c.jsonDesc(it))
		}
		return "{" + strings.Join(parts, ",") + "}"
	}
	panic("jsonDesc " + d.D)
}

var knownJSONNames = func() map[string]bool {
	m := map[string]bool{}
	for _, p := range []string{"P1", "P2"} {
		for _, n := range jsonNames[p] {
			m[n] = true
		}
	}
	for _, n := range []string{"measurement-type", "measurement-value", "version", "signer-id", "measurement-description"} {
		m[n] = true
	}
	return m
}()

// foldAlias: does the document (at any depth) carry a member whose name matches a known one only case-insensitively?
func foldAlias(m JMember) bool {
	for _, x := range m.Obj {
		if !knownJSONNames[x.Name] {
			for k := range knownJSONNames {
				if strings.EqualFold(k, x.Name) {
					return true
				}
			}
		}
		if foldAlias(x) {
			return true
		}
	}
	for _, x := range m.Arr {
		if foldAlias(x) {
			return true
		}
	}
	return false
}

func init() {
	// C07 (JSON side): documents with the profile member present / absent / null / unknown / other profile's /
	// under both tags / misspelt, with and without claim deviations, through the dispatching JSON decoders.
	drivers["json-decode"] = func(a *Args) {
		d := loadDomains(a.In)
		registerExtras(a.Reg)
		reg := currentReg()
		t := NewTracer(a.Out)
		cc := Conc{r: a.Rand()}
		setJSONProbes(cc, d)
		b := 0
		emit := func(src string, doc []byte) {
			tree, ok := parseJSONDoc(doc)
			if !ok {
				return
			}
			ev := decodeJSONEv{B: b, Op: "DecodeJSON", Src: src, Doc: tree, Reg: reg, Outs: []string{}, Fold: foldAlias(tree)}
			c, derr, pan := guardDec(func() (psatoken.IClaims, error) { return psatoken.DecodeClaimsFromJSON(append([]byte{}, doc...)) })
			ev.Dec = mkDecRes(c, derr, pan)
			c2, verr, pan2 := guardDec(func() (psatoken.IClaims, error) {
				return psatoken.DecodeAndValidateClaimsFromJSON(append([]byte{}, doc...))
			})
			ev.Val = mkDecRes(c2, verr, pan2)
			if ev.Dec.OK {
				ev.Get, ev.VRet, ev.CGet = safeGetters(c), safeValidate(c), compGettersOf(c)
			} else {
				ev.Get, ev.VRet, ev.CGet = emptyGet, Ret{OK: false, Cls: []string{}, Val: absent()}, []map[string]Ret{}
			}
			seen := map[string]bool{}
			for k := 0; k < 6; k++ {
				x, err, p := guardDec(func() (psatoken.IClaims, error) { return psatoken.DecodeClaimsFromJSON(doc) })
				o := dispatchOutcome(x, err, p)
				if !seen[o] {
					seen[o] = true
					ev.Outs = append(ev.Outs, o)
				}
			}
			ev.ProbeOK = jsonProbesOK()
			t.Emit(ev, true, !ev.Val.OK)
			b++
		}
		variants := []struct {
			name string
			edit func(m map[string]any, p string)
		}{
			{"as-is", func(m map[string]any, p string) {}},
			{"absent", func(m map[string]any, p string) { delete(m, jsonNames[p]["profile"]) }},
			{"null", func(m map[string]any, p string) { m[jsonNames[p]["profile"]] = nil }},
			{"unknown", func(m map[string]any, p string) { m[jsonNames[p]["profile"]] = "http://UNKNOWN" }},
			{"other", func(m map[string]any, p string) {
				m[jsonNames[p]["profile"]] = map[string]string{"P1": psatoken.Profile2Name, "P2": psatoken.Profile1Name}[p]
			}},
			{"other-tag", func(m map[string]any, p string) {
				delete(m, jsonNames[p]["profile"])
				o := map[string]string{"P1": "P2", "P2": "P1"}[p]
				m[jsonNames[o]["profile"]] = canonOf[o]
			}},
			{"both-tags", func(m map[string]any, p string) {
				o := map[string]string{"P1": "P2", "P2": "P1"}[p]
				m[jsonNames[p]["profile"]] = canonOf[p]
				m[jsonNames[o]["profile"]] = canonOf[o]
			}},
			{"both-tags-one-unknown", func(m map[string]any, p string) {
				o := map[string]string{"P1": "P2", "P2": "P1"}[p]
				m[jsonNames[p]["profile"]] = canonOf[p]
				m[jsonNames[o]["profile"]] = "http://UNKNOWN"
			}},
			{"misspelt", func(m map[string]any, p string) {
				m[jsonNames[p]["profile"]] = strings.ToUpper(canonOf[p][:4]) + canonOf[p][4:]
			}},
			{"number", func(m map[string]any, p string) { m[jsonNames[p]["profile"]] = 7 }},
			{"x2", func(m map[string]any, p string) { delete(m, jsonNames[p]["profile"]); m["eat-profile"] = X2Name }},
			{"empty", func(m map[string]any, p string) { m[jsonNames[p]["profile"]] = "" }},
		}
		for _, p := range []string{"P1", "P2"} {
			for _, kind := range []string{"full", "minimal", "nosw"} {
				specs := []CSpec{d.base(p, kind)}
				srcs := []string{"base:" + kind}
				if kind == "full" {
					for _, c := range d.Order {
						for _, al := range d.alts(p, c) {
							s := d.base(p, kind)
							s.apply(al)
							specs = append(specs, s)
							srcs = append(srcs, "single")
						}
					}
				}
				for si, s := range specs {
					var m map[string]any
					dec := json.NewDecoder(bytes.NewReader(cc.DocJSON(s)))
					dec.UseNumber()
					if err := dec.Decode(&m); err != nil {
						continue
					}
					for vi, v := range variants {
						if srcs[si] == "single" && vi > 2 && (si+vi)%4 != 0 {
							continue
						}
						m2 := map[string]any{}
						for k, x := range m {
							m2[k] = x
						}
						v.edit(m2, p)
						doc, _ := json.Marshal(m2)
						emit(srcs[si]+":"+v.name, doc)
					}
				}
			}
		}
		// value classes per member (spec/Gen_Json.tla): singles on three bases, pairs on the full base, extras
		if a.In2 != "" {
			var jd struct {
				Dom    map[string]map[string][]any `json:"dom"`
				Extras []any                       `json:"extras"`
			}
			loadJSON(a.In2, &jd)
			render := func(base map[string]json.RawMessage, order []string) []byte {
				parts := []string{}
				for _, k := range order {
					if v, ok := base[k]; ok {
						kb, _ := json.Marshal(k)
						parts = append(parts, string(kb)+":"+string(v))
					}
				}
				return []byte("{" + strings.Join(parts, ",") + "}")
			}
			for _, p := range []string{"P1", "P2"} {
				claims := []string{}
				for _, c := range claimOrder {
					if _, ok := jsonNames[p][c]; ok && c != "profile" && !(p == "P2" && c == "noSw") {
						claims = append(claims, c)
					}
				}
				for _, kind := range []string{"full", "minimal", "nosw"} {
					if p == "P2" && kind == "nosw" {
						continue
					}
					var base map[string]json.RawMessage
					if err := json.Unmarshal(cc.DocJSON(d.base(p, kind)), &base); err != nil {
						fatal("base document: %v", err)
					}
					order := []string{}
					for k := range base {
						order = append(order, k)
					}
					sort.Strings(order)
					with := func(b map[string]json.RawMessage, ord []string, name string, it Desc) (map[string]json.RawMessage, []string) {
						nb := map[string]json.RawMessage{}
						for k, v := range b {
							nb[k] = v
						}
						no := append([]string{}, ord...)
						if it.D == "none" {
							delete(nb, name)
							return nb, no
						}
						if _, ok := nb[name]; !ok {
							no = append(no, name)
						}
						nb[name] = json.RawMessage(cc.jsonDesc(it))
						return nb, no
					}
					for _, c := range claims {
						for _, x := range jd.Dom[p][c] {
							nb, no := with(base, order, jsonNames[p][c], descFromAny(x))
							emit("jsingle:"+kind, render(nb, no))
						}
					}
					if kind != "full" {
						continue
					}
					for i, c1 := range claims {
						for _, c2 := range claims[i+1:] {
							for _, x1 := range jd.Dom[p][c1] {
								for _, x2 := range jd.Dom[p][c2] {
									if a.Tier != "thorough" && cc.r.Intn(12) != 0 {
										continue
									}
									nb, no := with(base, order, jsonNames[p][c1], descFromAny(x1))
									nb, no = with(nb, no, jsonNames[p][c2], descFromAny(x2))
									emit("jpair", render(nb, no))
								}
							}
						}
					}
					for _, x := range jd.Extras {
						kv := x.(map[string]any)
						nb, no := with(base, order, kv["k"].(string), descFromAny(kv["it"]))
						emit("jextra", render(nb, no))
					}
				}
			}
		}
		t.Close(nil)
	}
}
