package main

// C03 (and the signing half of C10 / C08): every valid claims-set x every algorithm:
// ValidateAndSign -> independent parse of the token -> DecodeAndValidateEvidenceFromCOSE
// -> Verify on both Evidence objects.

import (
	"bytes"
	"strings"

	"verif/harness/cborx"

	"github.com/veraison/psatoken"
)

type signRTEv struct {
	B         int     `json:"b"`
	I         int     `json:"i"`
	Op        string  `json:"op"`
	Alg       string  `json:"alg"`
	How       string  `json:"how"`
	Validated bool    `json:"validated"` // ValidateAndSign (true) or Sign (false)
	Pre       Obj     `json:"pre"`
	SignOK    bool    `json:"signOK"`
	TI        tokInfo `json:"ti"`
	PTok      Item    `json:"ptok"`      // the payload, parsed by the independent reader
	PayloadEq bool    `json:"payloadEq"` // payload bytes = ValidateAndEncodeClaimsToCBOR(claims)
	DecOK     bool    `json:"decOK"`
	DecObj    Obj     `json:"decObj"`
	GetEq     bool    `json:"getEq"`   // decoded getters = original getters, claim for claim
	VerSelf   bool    `json:"verSelf"` // Verify on the signing Evidence
	VerDec    bool    `json:"verDec"`  // Verify on the decoded Evidence
	VerWrong  bool    `json:"verWrong"`
	Bound     bool    `json:"bound"` // decoded claims = decoding of the payload the signature covers
	Pan       bool    `json:"panicked"`
}

func init() {
	drivers["ev-signrt"] = func(a *Args) {
		var doc map[string][]map[string]any
		loadJSON(a.In, &doc)
		registerExtras(a.Reg)
		cc := Conc{r: a.Rand()}
		algs := []string{"ES256", "EdDSA", "PS256"}
		if a.Tier == "thorough" {
			algs = algNames
		}
		w := &evWorld{kr: newKeyring(algNames), sigs: map[string]sigID{}, enc: map[string][]byte{}, claims: map[string]psatoken.IClaims{}}
		t := NewTracer(a.Out)
		stride := 40
		if a.N > 0 {
			stride = a.N
		}
		off := cc.r.Intn(stride)
		b := 0
		for _, p := range []string{"P1", "P2"} {
			for idx, m := range doc[p] {
				if (idx+off)%stride != 0 {
					continue
				}
				s := specFromObj(m)
				setAlgs := algs
				if len(algs) < len(algNames) { // quick: the three staple algorithms, plus the others in rotation
					var rest []string
					for _, n := range algNames {
						if n != "ES256" && n != "EdDSA" && n != "PS256" {
							rest = append(rest, n)
						}
					}
					setAlgs = append(append([]string{}, algs...), rest[(idx/stride)%len(rest)])
				}
				for _, alg := range setAlgs {
					hows := []string{"setters", "lit", "cbor"}
					how := hows[cc.r.Intn(len(hows))]
					var c psatoken.IClaims
					switch how {
					case "setters":
						var ok bool
						c, ok = cc.BuildSetters(s, func() psatoken.IClaims { x, _ := psatoken.NewClaims(canonOf[p]); return x })
						if !ok {
							how, c = "lit", cc.BuildLit(s)
						}
					case "lit":
						c = cc.BuildLit(s)
					case "cbor":
						var err error
						if c, err = cc.BuildCBOR(s); err != nil {
							fatal("build: %v", err)
						}
					}
					if p == "P2" && strings.Contains(a.Reg, "X2") && b%4 == 0 {
						xs := s.clone()
						xs.Canon = X2Name
						xs.Vals["profile"] = V{K: "prof", S: []any{X2Name}}
						if x, ok := cc.BuildSetters(xs, NewX2Claims); ok {
							ts := int64(1700000000 + b)
							x.(*X2Claims).Timestamp = &ts
							c, how = x, "x2"
						}
					}
					ev := signRTEv{B: b, Op: "SignRT", Alg: alg, How: how, Validated: b%5 != 0, Pre: AbsClaims(c), PTok: newItem("none")}
					ev.TI = tokInfo{Payload: "nil", Alg: "none", Sig: noSig}
					ev.Pan = safely(func() {
						e := &psatoken.Evidence{}
						if err := e.SetClaims(c); err != nil {
							return
						}
						var tok []byte
						var err error
						sg := w.signer("good", "k1", alg)
						if ev.Validated {
							tok, err = e.ValidateAndSign(sg)
						} else {
							tok, err = e.Sign(sg)
						}
						ev.SignOK = err == nil
						if err != nil {
							return
						}
						ev.TI = w.absToken(tok)
						want, werr := psatoken.ValidateAndEncodeClaimsToCBOR(c)
						if pb, ok := payloadBytes(tok); ok {
							ev.PayloadEq = werr == nil && bytes.Equal(pb, want)
							if n, perr := cborx.Parse(pb); perr == nil {
								ev.PTok = absItem(n)
							}
						}
						ev.VerSelf = e.Verify(w.kr[alg]["k1"].pub) == nil
						d, derr := psatoken.DecodeAndValidateEvidenceFromCOSE(append([]byte{}, tok...))
						ev.DecOK = derr == nil
						if derr != nil {
							return
						}
						ev.DecObj = AbsClaims(d.Claims)
						ev.GetEq = jsonEq(allGetters(c), allGetters(d.Claims))
						ev.VerDec = d.Verify(w.kr[alg]["k1"].pub) == nil
						ev.VerWrong = d.Verify(w.kr[alg]["k2"].pub) == nil
						if pb, ok := payloadBytes(tok); ok {
							if c2, e2 := psatoken.DecodeClaimsFromCBOR(pb); e2 == nil {
								ev.Bound = jsonEq(allGetters(c2), allGetters(d.Claims))
							}
						}
					})
					if !ev.DecOK {
						ev.DecObj = ev.Pre
					}
					t.Emit(ev, true, true)
					b++
				}
			}
		}
		t.Close(nil)
	}
}
