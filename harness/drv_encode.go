package main

// Drivers for C09 / C10 / C12: valid claims-sets enumerated by TLC (spec/Gen_Valid.tla),
// built through setters, as literals or by decoding, then encoded; the emitted CBOR is
// parsed by the independent reader, the emitted JSON by encoding/json into a generic tree.

import (
	"bytes"
	"encoding/base64"
	"encoding/json"
	"sort"
	"strings"

	"verif/harness/cborx"

	"github.com/veraison/psatoken"
)

func specFromObj(m map[string]any) CSpec {
	s := CSpec{P: m["p"].(string), Canon: m["canon"].(string), Vals: map[string]V{}}
	for _, c := range []string{"profile", "clientId", "lifecycle", "implId", "bootSeed", "certRef", "noSw", "nonce", "instId", "vsi"} {
		v := vFromAny(m[c])
		if v.K != "abs" {
			s.Vals[c] = v
		}
	}
	s.Sw = swFromAny(m["sw"])
	return s
}

// BuildSetters builds the claims-set through NewClaims and the public setters (random order).
func (c Conc) BuildSetters(s CSpec, mk func() psatoken.IClaims) (psatoken.IClaims, bool) {
	if _, has := s.Vals["profile"]; !has {
		return nil, false // the factories pre-set the profile claim
	}
	o := mk()
	calls := []func() error{}
	for _, claim := range []string{"clientId", "lifecycle", "implId", "bootSeed", "certRef", "nonce", "instId", "vsi"} {
		v, ok := s.Vals[claim]
		if !ok {
			continue
		}
		arg := v
		if v.K == "nonces" {
			arg = v.S[0].(V)
		}
		call, _ := c.setterCall(claim, arg)
		calls = append(calls, func() error { return call(o) })
	}
	comps := []psatoken.ISwComponent{}
	for _, a := range s.Sw {
		comps = append(comps, c.compReal(a))
	}
	if _, flag := s.Vals["noSw"]; flag {
		calls = append(calls, func() error { return o.SetSoftwareComponents(nil) })
	} else {
		calls = append(calls, func() error { return o.SetSoftwareComponents(comps) })
	}
	c.r.Shuffle(len(calls), func(i, j int) { calls[i], calls[j] = calls[j], calls[i] })
	for _, f := range calls {
		if err := f(); err != nil {
			fatal("setter rejected a value of a valid set: %v", err)
		}
	}
	return o, true
}

type encRes struct {
	OK    bool `json:"ok"`
	WF    bool `json:"wf"`    // the independent reader parsed it
	Trail int  `json:"trail"` // bytes after the first item
	Tok   Item `json:"tok"`
}

type encodeEv struct {
	B          int    `json:"b"`
	I          int    `json:"i"`
	Op         string `json:"op"`
	Src        string `json:"src"`
	How        string `json:"how"`
	Pre        Obj    `json:"pre"`
	Post       Obj    `json:"post"`
	VRet       Ret    `json:"vret"`
	Enc        encRes `json:"enc"`
	VEncOK     bool   `json:"vencOK"`
	VEncSame   bool   `json:"vencSame"`
	Redec      decRes `json:"redec"`
	RegetEq    bool   `json:"regetEq"` // every getter of the re-decoded set returns what the original's returns
	ReencOK    bool   `json:"reencOK"`
	ReencEq    bool   `json:"reencEq"`    // encoding the re-decoded set gives the identical bytes
	Twice      bool   `json:"twice"`      // encoding twice gives identical bytes
	PrevIntact bool   `json:"prevIntact"` // the bytes returned by the previous encode call are still what they were
}

// the output of the previous encode call and a private copy of it: a later call must not change it
var prevOut, prevCopy []byte

func prevIntact(now []byte) bool {
	ok := bytes.Equal(prevOut, prevCopy)
	prevOut, prevCopy = now, append([]byte{}, now...)
	return ok
}

func extraGetters(c psatoken.IClaims) any {
	if x, ok := c.(*X2Claims); ok {
		v, err := x.GetTimestamp()
		return mkRet(err, absInt(v))
	}
	return nil
}

func allGetters(c psatoken.IClaims) any {
	return []any{safeGetters(c), compGettersOf(c), extraGetters(c)}
}

func observeEncodeCBOR(b int, src, how string, c psatoken.IClaims) encodeEv {
	ev := encodeEv{B: b, Op: "EncodeCBOR", Src: src, How: how, Pre: AbsClaims(c)}
	ev.VRet = safeValidate(c)
	ev.Enc.Tok = newItem("none")
	ev.Redec = decRes{Cls: []string{}}
	enc, err := psatoken.EncodeClaimsToCBOR(c)
	if err == nil {
		ev.Enc.OK = true
		if n, rest, perr := cborx.ParseFirst(enc); perr == nil {
			ev.Enc.WF, ev.Enc.Trail, ev.Enc.Tok = true, rest, absItem(n)
		}
		enc2, err2 := psatoken.EncodeClaimsToCBOR(c)
		ev.Twice = err2 == nil && bytes.Equal(enc, enc2)
		d, derr, pan := guardDec(func() (psatoken.IClaims, error) { return psatoken.DecodeClaimsFromCBOR(append([]byte{}, enc...)) })
		ev.Redec = mkDecRes(d, derr, pan)
		if ev.Redec.OK {
			ev.RegetEq = jsonEq(allGetters(c), allGetters(d))
			re, rerr := psatoken.EncodeClaimsToCBOR(d)
			ev.ReencOK = rerr == nil
			ev.ReencEq = rerr == nil && bytes.Equal(re, enc)
		}
	}
	ev.PrevIntact = prevIntact(enc)
	venc, verr := psatoken.ValidateAndEncodeClaimsToCBOR(c)
	ev.VEncOK = verr == nil
	ev.VEncSame = verr == nil && err == nil && bytes.Equal(venc, enc)
	ev.Post = AbsClaims(c)
	return ev
}

// ---------- JSON ----------

type JMember struct {
	Name string    `json:"name"`
	T    string    `json:"t"` // string number array object null bool
	V    int64     `json:"v"`
	B64  bool      `json:"b64"` // a string that is valid standard base64
	HB   string    `json:"hb"`  // identity of the base64-decoded bytes
	HS   string    `json:"hs"`  // identity of the string itself
	N    int       `json:"n"`
	Str  string    `json:"str"` // the string itself when short and printable
	Arr  []JMember `json:"arr"` // array elements (name "")
	Obj  []JMember `json:"obj"` // object members
	VB   V         `json:"vb"`  // strings: the base64-decoded bytes as a claim value (absent: not base64)
	VT   V         `json:"vt"`  // strings: the text as a certification reference
	VS   V         `json:"vs"`  // strings: the text as a free string
}

func absJSON(name string, x any) JMember {
	m := JMember{Name: name, Arr: []JMember{}, Obj: []JMember{}, VB: absent(), VT: absent(), VS: absent()}
	switch t := x.(type) {
	case nil:
		m.T = "null"
	case bool:
		m.T = "bool"
	case json.Number:
		m.T = "number"
		if i, err := t.Int64(); err == nil && i >= -2147483648 && i <= 2147483647 {
			m.V = i
			if i == 0 && strings.HasPrefix(t.String(), "-") {
				m.T = "negzero" // the literal -0: zero for a signed type, a syntax error for an unsigned one
			}
		} else {
			m.T = "bignumber"
		}
	case string:
		m.T, m.HS, m.N = "string", hx([]byte(t)), len(t)
		if len(t) <= 80 && printable(t) {
			m.Str = t
		}
		m.VT, m.VS = absText(t), absStr(t)
		if b, err := base64.StdEncoding.DecodeString(t); err == nil {
			m.B64, m.HB = true, hx(b)
			m.N = len(b)
			m.VB = absBytes(b)
		}
	case []any:
		m.T, m.N = "array", len(t)
		for _, e := range t {
			m.Arr = append(m.Arr, absJSON("", e))
		}
	case map[string]any:
		m.T, m.N = "object", len(t)
		names := []string{}
		for k := range t {
			names = append(names, k)
		}
		sort.Strings(names)
		for _, k := range names {
			m.Obj = append(m.Obj, absJSON(k, t[k]))
		}
	}
	return m
}

func parseJSONDoc(b []byte) (JMember, bool) {
	dec := json.NewDecoder(bytes.NewReader(b))
	dec.UseNumber()
	var x any
	if err := dec.Decode(&x); err != nil {
		return JMember{Arr: []JMember{}, Obj: []JMember{}, VB: absent(), VT: absent(), VS: absent()}, false
	}
	if dec.More() {
		return absJSON("", x), false
	}
	return absJSON("", x), true
}

type jsonEv struct {
	B       int     `json:"b"`
	I       int     `json:"i"`
	Op      string  `json:"op"`
	Src     string  `json:"src"`
	How     string  `json:"how"`
	Pre     Obj     `json:"pre"`
	Post    Obj     `json:"post"`
	VRet    Ret     `json:"vret"`
	EncOK   bool    `json:"encOK"`
	WF      bool    `json:"wf"`
	Doc     JMember `json:"doc"`
	VEncOK  bool    `json:"vencOK"`
	VEncEq  bool    `json:"vencEq"`
	Redec   decRes  `json:"redec"`   // DecodeClaimsFromJSON of the emitted document
	RegetEq bool    `json:"regetEq"` // getters identical after the JSON round trip
	// CBOR -> claims -> JSON -> claims -> CBOR
	PrevIntact bool       `json:"prevIntact"`
	EvJSONEq   bool       `json:"evJsonEq"` // Evidence{Claims}.MarshalJSON() gives the same document
	CrossOK    bool       `json:"crossOK"`
	CrossEq    bool       `json:"crossEq"`
	Reg        []regEntry `json:"reg"`
}

func observeEncodeJSON(b int, src, how string, c psatoken.IClaims, reg []regEntry) jsonEv {
	ev := jsonEv{B: b, Op: "EncodeJSON", Src: src, How: how, Pre: AbsClaims(c), Reg: reg}
	ev.VRet = safeValidate(c)
	ev.Doc = JMember{Arr: []JMember{}, Obj: []JMember{}, VB: absent(), VT: absent(), VS: absent()}
	ev.Redec = decRes{Cls: []string{}}
	doc, err := psatoken.EncodeClaimsToJSON(c)
	if err == nil {
		ev.EncOK = true
		ev.Doc, ev.WF = parseJSONDoc(doc)
		d, derr, pan := guardDec(func() (psatoken.IClaims, error) { return psatoken.DecodeClaimsFromJSON(append([]byte{}, doc...)) })
		ev.Redec = mkDecRes(d, derr, pan)
		if ev.Redec.OK {
			ev.RegetEq = jsonEq(allGetters(c), allGetters(d))
		}
	}
	ev.PrevIntact = prevIntact(doc)
	if err == nil {
		ej, eerr := (&psatoken.Evidence{Claims: c}).MarshalJSON()
		ev.EvJSONEq = eerr == nil && bytes.Equal(ej, doc)
	}
	vdoc, verr := psatoken.ValidateAndEncodeClaimsToJSON(c)
	ev.VEncOK = verr == nil
	ev.VEncEq = verr == nil && err == nil && bytes.Equal(vdoc, doc)
	// cross-format: CBOR -> claims -> JSON -> claims -> CBOR reproduces the CBOR bytes
	if cb, cerr := psatoken.EncodeClaimsToCBOR(c); cerr == nil {
		if c1, e1 := psatoken.DecodeClaimsFromCBOR(cb); e1 == nil {
			if j, e2 := psatoken.EncodeClaimsToJSON(c1); e2 == nil {
				if c2, e3 := psatoken.DecodeClaimsFromJSON(j); e3 == nil {
					if cb2, e4 := psatoken.EncodeClaimsToCBOR(c2); e4 == nil {
						ev.CrossOK = true
						ev.CrossEq = bytes.Equal(cb, cb2)
					}
				}
			}
		}
	}
	ev.Post = AbsClaims(c)
	return ev
}

func init() {
	drivers["wire-encode"] = func(a *Args) {
		var doc map[string][]map[string]any
		loadJSON(a.In, &doc)
		registerExtras(a.Reg)
		reg := currentReg()
		t := NewTracer(a.Out)
		cc := Conc{r: a.Rand()}
		b := 0
		bysrc := map[string]int{}
		stride := 9
		if a.Tier == "thorough" {
			stride = 1
		}
		if a.N > 0 {
			stride = a.N
		}
		off := cc.r.Intn(stride)
		doJSON := a.hasRest("json")
		doCBOR := a.hasRest("cbor") || !doJSON
		for _, p := range []string{"P1", "P2"} {
			for idx, m := range doc[p] {
				if (idx+off)%stride != 0 {
					continue
				}
				s := specFromObj(m)
				hows := []string{"setters", "lit", "json", "cbor"}
				how := hows[cc.r.Intn(len(hows))]
				var c psatoken.IClaims
				var err error
				switch how {
				case "setters":
					var ok bool
					c, ok = cc.BuildSetters(s, func() psatoken.IClaims { x, _ := psatoken.NewClaims(canonOf[p]); return x })
					if !ok {
						how = "lit"
						c = cc.BuildLit(s)
					}
				case "lit":
					c = cc.BuildLit(s)
				case "json":
					c, err = cc.BuildJSON(s)
				case "cbor":
					c, err = cc.BuildCBOR(s)
				}
				if err != nil {
					fatal("building a valid set failed (%s): %v", how, err)
				}
				if doCBOR {
					ev := observeEncodeCBOR(b, "valid:"+p, how, c)
					t.Emit(ev, true, true)
					b++
				}
				if doJSON {
					ev := observeEncodeJSON(b, "valid:"+p, how, c, reg)
					t.Emit(ev, true, true)
					b++
				}
				bysrc[p+":"+how]++
				// an extension profile built on profile 2 (registered with -reg X2)
				if p == "P2" && strings.Contains(a.Reg, "X2") && b%3 == 0 {
					xs := s.clone()
					xs.Canon = X2Name
					xs.Vals["profile"] = V{K: "prof", S: []any{X2Name}}
					x, ok := cc.BuildSetters(xs, NewX2Claims)
					if ok {
						if idx%2 == 0 {
							ts := int64(cc.r.Intn(1 << 30))
							x.(*X2Claims).Timestamp = &ts
						}
						if doCBOR {
							t.Emit(observeEncodeCBOR(b, "valid:X2", "setters", x), true, true)
							b++
						}
						if doJSON {
							t.Emit(observeEncodeJSON(b, "valid:X2", "setters", x, reg), true, true)
							b++
						}
						bysrc["X2:setters"]++
					}
				}
			}
		}
		// text claims whose *value* is one of the structural names (a member name, a profile name, a key spelling, a JSON
		// literal): the verification-service indicator and the component texts take every one of them in turn
		for _, p := range []string{"P1", "P2"} {
			var base *CSpec
			for _, m := range doc[p] {
				if s := specFromObj(m); len(s.Sw) >= 1 {
					if _, has := s.Vals["vsi"]; has {
						base = &s
						break
					}
				}
			}
			if base == nil {
				fatal("no valid %s set with an indicator and a component", p)
			}
			for _, name := range structuralNames() {
				s := base.clone()
				s.Vals["vsi"] = V{K: "str", N: len(name), B0: strClass(name), S: []any{}}
				forceName = name
				var c psatoken.IClaims
				how := []string{"setters", "lit"}[cc.r.Intn(2)]
				if how == "setters" {
					var ok bool
					if c, ok = cc.BuildSetters(s, func() psatoken.IClaims { x, _ := psatoken.NewClaims(canonOf[p]); return x }); !ok {
						how, c = "lit", cc.BuildLit(s)
					}
				} else {
					c = cc.BuildLit(s)
				}
				forceName = ""
				if doCBOR {
					t.Emit(observeEncodeCBOR(b, "names:"+p, how, c), true, true)
					b++
				}
				if doJSON {
					t.Emit(observeEncodeJSON(b, "names:"+p, how, c, reg), true, true)
					b++
				}
				bysrc[p+":names"]++
			}
		}
		// long component lists, around the boundaries of the CBOR array head (23 | 24, 255 | 256)
		lens := []int{5, 23, 24, 25, 256}
		if a.Tier == "thorough" {
			lens = []int{5, 22, 23, 24, 25, 26, 100, 255, 256, 257, 1000}
		}
		for _, p := range []string{"P1", "P2"} {
			var base *CSpec
			for _, m := range doc[p] {
				if s := specFromObj(m); len(s.Sw) >= 2 {
					base = &s
					break
				}
			}
			if base == nil {
				continue
			}
			for k, n := range lens {
				s := base.clone()
				s.Sw = nil
				for i := 0; i < n; i++ {
					s.Sw = append(s.Sw, base.Sw[i%len(base.Sw)])
				}
				var c psatoken.IClaims
				var err error
				how := []string{"setters", "lit", "cbor", "json"}[k%4]
				switch how {
				case "setters":
					var ok bool
					if c, ok = cc.BuildSetters(s, func() psatoken.IClaims { x, _ := psatoken.NewClaims(canonOf[p]); return x }); !ok {
						how, c = "lit", cc.BuildLit(s)
					}
				case "lit":
					c = cc.BuildLit(s)
				case "cbor":
					c, err = cc.BuildCBOR(s)
				case "json":
					c, err = cc.BuildJSON(s)
				}
				if err != nil {
					fatal("building a valid set with %d components failed (%s): %v", n, how, err)
				}
				if doCBOR {
					t.Emit(observeEncodeCBOR(b, "manycomps:"+p, how, c), true, true)
					b++
				}
				if doJSON {
					t.Emit(observeEncodeJSON(b, "manycomps:"+p, how, c, reg), true, true)
					b++
				}
				bysrc[p+":manycomps"]++
			}
		}
		t.Close(map[string]any{"by_source": bysrc})
	}
}
