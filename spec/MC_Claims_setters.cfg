SPECIFICATION Spec
CONSTANTS
  Profiles = {"P1", "P2"}
  DomBytes = {0, 7, 8, 31, 32, 33, 48, 64, 65}
  DomLC = {0, 255, 256, 12288, 24831, 24832, 65535}
  DomCert <- CertDom
  DomSw <- SwDom
  MaxComps = 2
  DomInvalid <- NoInvalid
INVARIANTS MandatorySetImpliesValid ValidIffGetters ValidThenMandatoryGettersOK
PROPERTIES SetterAgrees SetterStores AtomicOnFailure OnlyTargetChanges ReadOpsPure P1Exclusive ErrorsClassifiedStep
VIEW View
CHECK_DEADLOCK FALSE
