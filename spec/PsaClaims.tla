---- MODULE PsaClaims ----
(***************************************************************************)
(* The claims-set object of both built-in profiles (and of extensions that *)
(* embed one of them under another canonical name): its state, the status  *)
(* of every claim, validation, getters and setters.                        *)
(*                                                                         *)
(* Every public call is defined through a pure "step function"            *)
(* (state, arguments) -> [post, ret]; module PsaClaimsSM turns them into   *)
(* the actions of the state machine, so that the bounded model (MC_Claims) *)
(* and the trace judge (Trace_Claims) share one definition: the library is *)
(* sequential and deterministic, the linearisation point of a call is its  *)
(* return.                                                                 *)
(*                                                                         *)
(*   o.p      rule set: "P1" | "P2"                                        *)
(*   o.canon  the profile name the instance validates against              *)
(*   o.<claim> abstract value (PsaTypes!V), o.sw = [l |-> <<components>>]  *)
(***************************************************************************)
EXTENDS PsaTypes

P1Name == "PSA_IOT_PROFILE_1"
P2Name == "http://arm.com/psa/2.0.0"

Claims == {"profile","clientId","lifecycle","implId","bootSeed","certRef","sw","noSw","nonce","instId","vsi"}
\* the ten claims of the IClaims interface (noSw is profile 1's companion of sw)
IClaims == Claims \ {"noSw"}
ScalarClaims == IClaims \ {"sw"}
Mandatory(p) == IF p = "P1" THEN {"clientId","lifecycle","implId","bootSeed","nonce","instId","sw"}
                            ELSE {"profile","clientId","lifecycle","implId","nonce","instId","sw"}
Optional(p)  == IClaims \ Mandatory(p)

\* ---------- software components ----------
CompFields == {"mt","mv","ver","sid","desc"}
Comp(mt, mv, ver, sid, desc) == [nul |-> FALSE, mt |-> mt, mv |-> mv, ver |-> ver, sid |-> sid, desc |-> desc]
NullComp == [nul |-> TRUE, mt |-> Abs, mv |-> Abs, ver |-> Abs, sid |-> Abs, desc |-> Abs]
SwV(l) == [l |-> l]
\* status of one field of a component
CompFieldStatus(c, f) ==
  IF f \in {"mv","sid"}
  THEN IF ~Present(c[f]) THEN "missingMandatory" ELSE IF HashOK(c[f]) THEN "ok" ELSE "wrongSyntax"
  ELSE IF ~Present(c[f]) THEN "missingOptional" ELSE "ok"
\* the classes a component's validation may report ({} = valid)
CompClasses(c) == IF c.nul THEN {"wrongSyntax"}
                  ELSE {CompFieldStatus(c, f) : f \in CompFields} \ {"ok", "missingOptional"}
CompOK(c) == CompClasses(c) = {}
ListClasses(l) == UNION {CompClasses(l[i]) : i \in 1..Len(l)}

\* ---------- status of one claim: the set of classes its getter's error may carry ----------
\* {"ok"} = the getter succeeds.  A singleton everywhere except for a component list with
\* several offending fields, where any offender's class may be reported.
StatusSet(o, c) ==
  LET p == o.p IN
  CASE c = "profile"  -> IF ~Present(o.profile) THEN (IF p = "P1" THEN {"ok"} ELSE {"missingMandatory"})
                         ELSE IF o.profile.s[1] = o.canon THEN {"ok"} ELSE {"wrongProfile"}
    [] c = "clientId" -> IF Present(o.clientId) THEN {"ok"} ELSE {"missingMandatory"}
    [] c = "lifecycle"-> IF ~Present(o.lifecycle) THEN {"missingMandatory"}
                         ELSE IF LifeCycleOK(o.lifecycle) THEN {"ok"} ELSE {"wrongSyntax"}
    [] c = "implId"   -> IF ~Present(o.implId) THEN {"missingMandatory"}
                         ELSE IF ImplIdOK(o.implId) THEN {"ok"} ELSE {"wrongSyntax"}
    [] c = "bootSeed" -> IF ~Present(o.bootSeed) THEN (IF p = "P1" THEN {"missingMandatory"} ELSE {"missingOptional"})
                         ELSE IF BootSeedOK(p, o.bootSeed) THEN {"ok"} ELSE {"wrongSyntax"}
    [] c = "certRef"  -> IF ~Present(o.certRef) THEN {"missingOptional"}
                         ELSE IF CertRefOK(p, o.certRef) THEN {"ok"} ELSE {"wrongSyntax"}
    [] c = "nonce"    -> IF ~Present(o.nonce) THEN {"missingMandatory"}
                         ELSE IF NonceOK(p, o.nonce) THEN {"ok"} ELSE {"wrongSyntax"}
    [] c = "instId"   -> IF ~Present(o.instId) THEN {"missingMandatory"}
                         ELSE IF InstIdOK(o.instId) THEN {"ok"} ELSE {"wrongSyntax"}
    [] c = "vsi"      -> IF ~Present(o.vsi) THEN {"missingOptional"}
                         ELSE IF VsiOK(o.vsi) THEN {"ok"} ELSE {"wrongSyntax"}
    [] c = "sw"       -> LET l == o.sw.l  flag == p = "P1" /\ Present(o.noSw) IN
                         IF Len(l) = 0 THEN (IF flag THEN {"ok"} ELSE {"missingMandatory"})
                         ELSE IF flag THEN {"wrongSyntax"}          \* never both
                         ELSE IF ListClasses(l) = {} THEN {"ok"} ELSE ListClasses(l)
ClaimOK(o, c) == StatusSet(o, c) = {"ok"}
\* validation ignores a missing optional claim
ClaimAcceptable(o, c) == StatusSet(o, c) \subseteq {"ok", "missingOptional"}
Valid(o) == \A c \in IClaims : ClaimAcceptable(o, c)
\* the classes a failed validation may report: those of the offending claims
Offending(o) == {c \in IClaims : ~ClaimAcceptable(o, c)}
ValidateClasses(o) == UNION {StatusSet(o, c) : c \in Offending(o)}

\* ---------- results ----------
\* ret.cls is the set of sentinel classes errors.Is reports; ret.val the returned value
Ret(ok, cls, val) == [ok |-> ok, cls |-> cls, val |-> val]
RetOK(val) == Ret(TRUE, {}, val)

\* what a getter returns on success
GetterVal(o, c) ==
  CASE c = "profile" -> IF Present(o.profile) THEN o.profile ELSE Prof(o.canon)
    [] c = "nonce"   -> IF o.p = "P2" THEN o.nonce.s[1] ELSE o.nonce
    [] c = "sw"      -> o.sw.l                     \* empty when profile 1 asserts no-measurements
    [] OTHER         -> o[c]
\* the admissible results of getter c on object o (a set: see StatusSet)
GetterRets(o, c) ==
  IF ClaimOK(o, c) THEN {RetOK(GetterVal(o, c))}
  ELSE {Ret(FALSE, {cl}, IF c = "sw" THEN <<>> ELSE Abs) : cl \in StatusSet(o, c)}
ValidateRets(o) == IF Valid(o) THEN {RetOK(Abs)} ELSE {Ret(FALSE, {cl}, Abs) : cl \in ValidateClasses(o)}

\* ---------- constructors ----------
Blank(p, canon) == [p |-> p, canon |-> canon, profile |-> Abs, clientId |-> Abs, lifecycle |-> Abs, implId |-> Abs,
                    bootSeed |-> Abs, certRef |-> Abs, sw |-> SwV(<<>>), noSw |-> Abs, nonce |-> Abs,
                    instId |-> Abs, vsi |-> Abs]
\* NewClaims / the profile factories: the profile claim is pre-set to the canonical name
Fresh(p, canon) == [Blank(p, canon) EXCEPT !.profile = Prof(canon)]

\* ---------- setters: validate, then assign; nothing else changes ----------
\* does validation of profile p accept value v for claim c (v is what the setter is given)
ArgOK(p, c, v) ==
  CASE c = "clientId"  -> v.k = "int"
    [] c = "lifecycle" -> LifeCycleOK(v)
    [] c = "implId"    -> ImplIdOK(v)
    [] c = "bootSeed"  -> BootSeedOK(p, v)
    [] c = "certRef"   -> CertRefOK(p, v)
    [] c = "nonce"     -> HashOK(v)
    [] c = "instId"    -> InstIdOK(v)
    [] c = "vsi"       -> VsiOK(v)
\* what the claims-set stores for an accepted argument
Stored(p, c, v) == IF c = "nonce" /\ p = "P2" THEN Nonces(<<v>>) ELSE v
SetF(o, c, v) ==
  IF ArgOK(o.p, c, v)
  THEN [post |-> [o EXCEPT ![c] = Stored(o.p, c, v)], ret |-> RetOK(Abs)]
  ELSE [post |-> o, ret |-> Ret(FALSE, {"wrongSyntax"}, Abs)]
\* SetSoftwareComponents(list): all components are validated and converted, then swapped in.
\* An empty (non-nil) list is the "clear" operation.  Profile 1 also drops the
\* no-measurements flag; with a nil list it asserts the flag and drops the list instead.
SetSwF(o, l, isNil) ==
  IF isNil /\ o.p = "P1"
  THEN [post |-> [o EXCEPT !.sw = SwV(<<>>), !.noSw = IntV(1)], ret |-> RetOK(Abs)]
  ELSE IF ListClasses(l) = {}
  THEN [post |-> IF o.p = "P1" THEN [o EXCEPT !.sw = SwV(l), !.noSw = Abs] ELSE [o EXCEPT !.sw = SwV(l)],
        ret |-> RetOK(Abs)]
  ELSE [post |-> o, ret |-> Ret(FALSE, ListClasses(l), Abs)]
\* container Add: validate-all-then-append
AddSwF(o, l) ==
  IF ListClasses(l) = {}
  THEN [post |-> [o EXCEPT !.sw = SwV(o.sw.l \o l)], ret |-> RetOK(Abs)]
  ELSE [post |-> o, ret |-> Ret(FALSE, ListClasses(l), Abs)]
\* component setters (hashes validated, text fields unconstrained)
CompSetF(c, f, v) ==
  IF f \in {"mv","sid"} /\ ~HashOK(v)
  THEN [post |-> c, ret |-> Ret(FALSE, {"wrongSyntax"}, Abs)]
  ELSE [post |-> [c EXCEPT ![f] = v], ret |-> RetOK(Abs)]
CompGetRets(c, f) == LET s == CompFieldStatus(c, f) IN
                     IF s = "ok" THEN {RetOK(c[f])} ELSE {Ret(FALSE, {s}, Abs)}
Canon(p) == IF p = "P1" THEN P1Name ELSE P2Name
====
