---- MODULE Gen_Errors ----
\* gen step for the error filter (C13): every wrapping chain of depth <= 3 over the sentinel
\* errors, the derived claim / field errors, nil and a foreign error.
EXTENDS Integers, Sequences, Json, IOUtils, TLC
Bases == {"nil", "missingOptional", "missingMandatory", "notInProfile", "wrongProfile", "wrongSyntax",
          "optClaim", "manClaim", "claimNIP", "optField", "manField", "fieldNIP", "foreign"}
Wrappers == {"w", "v", "join", "joinFirst", "custom", "multi", "ww", "is"}
WSeqs == UNION {[1..n -> Wrappers] : n \in 0..3}
Chains == {<<b>> \o w : b \in Bases, w \in WSeqs}
ASSUME JsonSerialize(IOEnv.OUT, [chains |-> Chains])
VARIABLE dummy
GInit == dummy = 0
GNext == UNCHANGED dummy
====
