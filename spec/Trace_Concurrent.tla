---- MODULE Trace_Concurrent ----
(***************************************************************************)
(* Judge for C17.  ConcOp: one operation of a released batch, with the     *)
(* result it produced while running concurrently and the result of the     *)
(* same call made sequentially afterwards; ConcEnd: the shared objects'    *)
(* deep snapshot after all batches; Race: a report of the Go race detector *)
(* (the instrument for "no data race": TLA+ cannot observe memory).        *)
(***************************************************************************)
EXTENDS PsaConcurrent, TraceLib
VARIABLES l, bad
tvars == <<cvars2, l, bad>>
ConcOpOK(e) == /\ Legal(e.name, e.obj)          \* the schedule stays inside what the property covers
               /\ ~e.panicked
               /\ e.res = e.seq                  \* same result as the same call executed sequentially
ConcEndOK(e) == e.snapEq                          \* read-only operations left the shared objects unchanged
Match(e) == CASE e.op = "ConcOp" -> ConcOpOK(e) [] e.op = "ConcEnd" -> ConcEndOK(e) [] e.op = "Race" -> FALSE [] OTHER -> FALSE
TInit == CInit /\ l = 1 /\ bad = <<>>
TNext == l <= Len(Trace) /\ l' = l + 1 /\ bad' = (IF Match(Trace[l]) THEN bad ELSE Append(bad, l)) /\ UNCHANGED cvars2
TSpec == TInit /\ [][TNext]_tvars
OpsSeen == {Trace[i].name : i \in {j \in 1..Len(Trace) : Trace[j].op = "ConcOp"}}
SharedSeen == {Trace[i].obj : i \in {j \in 1..Len(Trace) : Trace[j].op = "ConcOp"}}
Verdict == l = Len(Trace) + 1 => WriteVerdict([n |-> Len(Trace), bad |-> bad, ops |-> OpsSeen, objs |-> SharedSeen])
====
