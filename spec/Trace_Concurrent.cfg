SPECIFICATION TSpec
CONSTANTS
  N = 0
  Batches = 0
INVARIANT Verdict
CHECK_DEADLOCK FALSE
