---- MODULE Gen_Json ----
(***************************************************************************)
(* gen step for the JSON decoder (PsaJson): per claim the classes of JSON  *)
(* values a document may carry under the claim's member name - absent,     *)
(* null, each boundary class of the right type, each wrong JSON type,      *)
(* numbers that are no integer of the claim's width, strings that are no   *)
(* base64 - as descriptors the harness turns into JSON text.  The harness  *)
(* enumerates singles and pairs over base documents and adds unknown and   *)
(* case-variant members.  No expected verdict is exported: the judge       *)
(* computes it from a generic parse of the text that was fed.              *)
(***************************************************************************)
EXTENDS PsaJson, Json, IOUtils
\* descriptor: d kind, n length, b0 first-byte / character class, v value, s shape / literal / sub-descriptors
D(d, n, b0, v, s) == [d |-> d, n |-> n, b0 |-> b0, v |-> v, s |-> s]
JNone == D("none", 0, 0, 0, <<>>)
JNull == D("null", 0, 0, 0, <<>>)
JBool == D("bool", 0, 0, 1, <<>>)
JB64(n, b0) == D("b64", n, b0, 0, <<>>)                \* standard base64 of n bytes
JB64Url(n) == D("b64url", n, 0, 0, <<>>)               \* URL-safe alphabet, unpadded: not what the decoder reads
JNotB64 == D("notb64", 0, 0, 0, <<>>)
JNum(v) == D("num", 0, 0, v, <<>>)
JLit(text) == D("lit", 0, 0, 0, <<text>>)              \* a number literal given as text: fractions, exponents, wide values
JShape(s) == D("strShape", Len(s), 0, 0, s)
JStrLen(n, cls) == D("strLen", n, cls, 0, <<>>)
JName(nm) == D("strName", 0, 0, 0, <<nm>>)
JArr(items) == D("arr", Len(items), 0, 0, items)
JObj(pairs) == D("obj", Len(pairs), 0, 0, pairs)       \* pairs: [k |-> member name, it |-> descriptor]
KV(k, it) == [k |-> k, it |-> it]
WrongForBytes == {JNull, JNotB64, JB64Url(32), JNum(7), JBool, JArr(<<>>), JObj(<<>>), JStrLen(0, 0), JLit("1.5")}
WrongForText == {JNull, JNum(7), JBool, JArr(<<JStrLen(3, 0)>>), JObj(<<>>)}
WrongForInt == {JNull, JStrLen(1, 0), JName("1"), JBool, JArr(<<JNum(1)>>), JObj(<<>>), JLit("1.0"), JLit("1.5"), JLit("1e2"), JLit("1E0"), JLit("-0"),
                JLit("4294967296"), JLit("18446744073709551616"), JLit("-2147483649"), JLit("1e400")}
BytesDom(lens) == {JB64(n, 2) : n \in lens} \cup WrongForBytes
OkComp == JObj(<<KV("measurement-value", JB64(32, 2)), KV("signer-id", JB64(32, 2))>>)
FullComp == JObj(<<KV("measurement-type", JStrLen(2, 0)), KV("measurement-value", JB64(48, 2)), KV("version", JStrLen(5, 1)),
                   KV("signer-id", JB64(64, 2)), KV("measurement-description", JStrLen(8, 2))>>)
CompWith(k, it) == JObj(<<KV("measurement-value", IF k = "measurement-value" THEN it ELSE JB64(32, 2)),
                          KV("signer-id", IF k = "signer-id" THEN it ELSE JB64(32, 2))>>
                        \o (IF k \in {"measurement-value", "signer-id"} THEN <<>> ELSE <<KV(k, it)>>))
CompDom == {OkComp, FullComp}
           \cup {CompWith("measurement-value", it) : it \in {JB64(31, 2), JB64(65, 2), JNone, JNull, JNotB64, JNum(1), JArr(<<>>)}}
           \cup {CompWith("signer-id", it) : it \in {JB64(0, 0), JB64(48, 2), JNull, JNum(5), JB64Url(32)}}
           \cup {CompWith("measurement-type", it) : it \in {JStrLen(0, 0), JStrLen(3, 1), JNull, JNum(1), JBool}}
           \cup {CompWith("version", it) : it \in {JStrLen(5, 2), JArr(<<>>)}} \cup {CompWith("measurement-description", it) : it \in {JStrLen(300, 0), JNull}}
           \cup {CompWith("unknown-member", JNum(9)), CompWith("Measurement-Value", JB64(32, 2)), CompWith("SIGNER-ID", JB64(31, 2))}
           \cup {JNull, JNum(3), JArr(<<>>), JObj(<<>>), JStrLen(4, 0), JBool}
SwDom == {JNone, JNull, JArr(<<>>), JObj(<<>>), JStrLen(8, 0), JNum(1), JBool}
         \cup {JArr(<<c>>) : c \in CompDom} \cup {JArr(<<OkComp, c>>) : c \in CompDom} \cup {JArr(<<FullComp, OkComp, OkComp, FullComp>>)}
ItemDom(p, c) ==
  CASE c = "implId"    -> {JNone} \cup BytesDom({0, 31, 32, 33})
    [] c = "instId"    -> {JNone, JB64(33, 1), JB64(33, 0), JB64(33, 2), JB64(32, 1), JB64(34, 1)} \cup WrongForBytes
    [] c = "bootSeed"  -> {JNone} \cup BytesDom(IF p = "P1" THEN {31, 32, 33} ELSE {7, 8, 32, 33})
    [] c = "nonce"     -> {JNone} \cup BytesDom({31, 32, 48, 64, 65})
                          \cup (IF p = "P2" THEN {JArr(<<JB64(32, 2)>>), JArr(<<JB64(32, 2), JB64(48, 2)>>), JArr(<<>>), JArr(<<JNotB64, JB64(32, 2)>>),
                                                  JArr(<<JNum(1), JNum(2)>>), JArr(<<JB64(32, 2), JNull>>), JB64(7, 2), JB64(80, 2)} ELSE {})
    [] c = "clientId"  -> {JNone, JNum(0), JNum(1), JNum(-1), JNum(2147483647), JNum(-2147483647 - 1), JLit("2147483648")} \cup WrongForInt
    [] c = "lifecycle" -> {JNone, JNum(0), JNum(255), JNum(256), JNum(12288), JNum(24831), JNum(24832), JNum(65535), JNum(65536), JNum(77824),
                           JNum(-1), JNum(-12288), JLit("12288.0"), JLit("1.2288e4")} \cup WrongForInt
    [] c = "noSw"      -> IF p = "P1" THEN {JNone, JNum(1), JNum(0), JNum(2), JNum(-1), JNull, JBool, JStrLen(1, 0), JLit("1.0"), JLit("4294967296")} ELSE {JNone}
    [] c = "certRef"   -> {JNone, JShape(EAN13), JShape(EAN13p5), JShape(Rep(12, "D")), JShape(EAN13p5 \o <<"X">>), JShape(<<>>),
                           JShape(<<"X">> \o EAN13)} \cup WrongForText
    [] c = "vsi"       -> {JNone, JStrLen(0, 0), JStrLen(1, 0), JStrLen(46, 0), JStrLen(9, 1), JStrLen(9, 2), JStrLen(300, 0)} \cup WrongForText
    [] c = "profile"   -> {JName(Canon(p))}                                   \* (the profile member is the dispatch driver's business)
    [] c = "sw"        -> SwDom
\* unknown extra members, and members whose name differs from a known one only by case (no verdict: the standard
\* decoder matches names case-insensitively, the dispatcher does not)
Extras == {KV("unknown", JNum(0)), KV("psa-unknown", JNull), KV("x", JArr(<<JNum(1), JArr(<<>>)>>)), KV("", JObj(<<>>)),
           KV("-75008", JB64(32, 2)), KV("10", JB64(32, 2)), KV("PSA-NONCE", JB64(32, 2)), KV("Psa-Client-Id", JNum(5)),
           KV("psa-security-lifecycle ", JNum(12288)), KV("psa_nonce", JB64(32, 2))}
Doc == [dom |-> [p \in {"P1", "P2"} |-> [c \in Claims |-> ItemDom(p, c)]], extras |-> Extras,
        names |-> [P1 |-> JsonNames("P1"), P2 |-> JsonNames("P2")]]
ASSUME JsonSerialize(IOEnv.OUT, Doc)
VARIABLE dummy
GInit == dummy = 0
GNext == UNCHANGED dummy
====
