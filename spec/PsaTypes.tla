---- MODULE PsaTypes ----
(***************************************************************************)
(* Value domains and the per-claim syntactic rules of the two PSA          *)
(* attestation-token profiles (PSA_IOT_PROFILE_1 and                       *)
(* http://arm.com/psa/2.0.0), written once, from the property text and the *)
(* two drafts, and used by every other module as the oracle.               *)
(*                                                                         *)
(* Abstract values are uniformly-typed records (TLC refuses to compare a   *)
(* string with a record, so every value carries the same fields):          *)
(*   k  kind: "abs" (claim absent) | "bytes" | "int" | "text" | "str" |    *)
(*            "prof" | "nonces"                                            *)
(*   n  length (bytes / text / number of nonces)                           *)
(*   b0 class of the first byte of a byte string: 0 = 0x00 (or empty),     *)
(*      1 = 0x01, 2 = anything else;  for "str": 0 ascii, 1 non-ascii,     *)
(*      2 control-or-quote                                                 *)
(*   v  integer value                                                      *)
(*   s  "text": shape over {"D","H","X"} (digit, hyphen, other);           *)
(*      "prof": <<name>>;  "nonces": sequence of "bytes" values            *)
(*   h  hex of the concrete content (only ever compared for equality);     *)
(*      "" in values that TLC generates                                    *)
(***************************************************************************)
EXTENDS Integers, Sequences, FiniteSets, TLC

V(k, n, b0, v, s, h) == [k |-> k, n |-> n, b0 |-> b0, v |-> v, s |-> s, h |-> h]
Abs          == V("abs", 0, 0, 0, <<>>, "")
Bytes(n, b0) == V("bytes", n, b0, 0, <<>>, "")
IntV(v)      == V("int", 0, 0, v, <<>>, "")
Text(s)      == V("text", Len(s), 0, 0, s, "")
Str(n, cls)  == V("str", n, cls, 0, <<>>, "")
Prof(name)   == V("prof", 0, 0, 0, <<name>>, "")
Nonces(l)    == V("nonces", Len(l), 0, 0, l, "")
Present(v)   == v.k # "abs"

\* ---------- rules ----------
HashLenOK(n)     == n \in {32, 48, 64}
ImplIdOK(v)      == v.k = "bytes" /\ v.n = 32
InstIdOK(v)      == v.k = "bytes" /\ v.n = 33 /\ v.b0 = 1          \* UEID type RAND = 0x01
BootSeedOK(p, v) == v.k = "bytes" /\ IF p = "P1" THEN v.n = 32 ELSE v.n \in 8..32
HashOK(v)        == v.k = "bytes" /\ HashLenOK(v.n)
\* profile 1 carries the nonce as a bare byte string; profile 2 as an EAT nonce (a list):
\* exactly one entry, of hash size
NonceOK(p, v)    == IF p = "P1" THEN HashOK(v)
                    ELSE v.k = "nonces" /\ v.n = 1 /\ HashOK(v.s[1])
VsiOK(v)         == v.k = "str" /\ v.n > 0

\* security lifecycle: seven ranges of 256 values at 0x0000, 0x1000, ..., 0x6000
StateInvalid == 7
LifeCycleState(v) == IF v \in 0..65535 /\ v % 4096 < 256 /\ v \div 4096 <= 6 THEN v \div 4096 ELSE StateInvalid
StateName(s) == CASE s = 0 -> "unknown" [] s = 1 -> "assembly-and-test" [] s = 2 -> "psa-rot-provisioning"
                  [] s = 3 -> "secured" [] s = 4 -> "non-psa-rot-debug" [] s = 5 -> "recoverable-psa-rot-debug"
                  [] s = 6 -> "decommissioned" [] OTHER -> "invalid"
LifeCycleValid(v) == LifeCycleState(v) # StateInvalid
LifeCycleOK(v) == v.k = "int" /\ LifeCycleValid(v.v)

\* certification reference: EAN-13 (13 digits) or EAN-13+5 (13 digits, hyphen, 5 digits)
AllD(s, lo, hi) == \A i \in lo..hi : s[i] = "D"
IsEAN13(s)   == Len(s) = 13 /\ AllD(s, 1, 13)
IsEAN13p5(s) == Len(s) = 19 /\ AllD(s, 1, 13) /\ s[14] = "H" /\ AllD(s, 15, 19)
CertRefOK(p, v) == v.k = "text" /\ (IsEAN13p5(v.s) \/ (p = "P1" /\ IsEAN13(v.s)))

\* the single-edit neighbourhood of a shape
Alpha == {"D", "H", "X"}
Rep(n, c) == [i \in 1..n |-> c]
EAN13   == Rep(13, "D")
EAN13p5 == Rep(13, "D") \o <<"H">> \o Rep(5, "D")
Subst(s) == {[s EXCEPT ![i] = c] : i \in 1..Len(s), c \in Alpha}
Del(s)   == {SubSeq(s, 1, i-1) \o SubSeq(s, i+1, Len(s)) : i \in 1..Len(s)}
Ins(s)   == {SubSeq(s, 1, i) \o <<c>> \o SubSeq(s, i+1, Len(s)) : i \in 0..Len(s), c \in Alpha}
Neighbourhood(s) == Subst(s) \cup Del(s) \cup Ins(s)
CertShapes == Neighbourhood(EAN13) \cup Neighbourhood(EAN13p5) \cup {<<>>}

\* ---------- error classes ----------
\* the five sentinels of errors.go, as the set errors.Is reports
ErrClasses == {"missingOptional", "missingMandatory", "notInProfile", "wrongProfile", "wrongSyntax"}
\* FilterError: nil for nil, missing-optional and not-in-profile; every other error unchanged.
\* An error is abstracted to the set of sentinels its chain reaches ({} = a foreign error).
Filtered(isNil, cls) == isNil \/ "missingOptional" \in cls \/ "notInProfile" \in cls

\* Go error chains, as built by the harness for the filter: chain[1] is the base (nil, one of the five root
\* sentinels, a derived claim / field sentinel, or a foreign error), the rest are wrappers applied inside-out:
\*   "w" %w   "ww" two %w   "join" / "joinFirst" errors.Join   "custom" a type with Unwrap() error   "multi" Unwrap() []error
\*      - all keep the chain reachable for errors.Is
\*   "v" %v   - flattens to text: nothing is reachable any more
\*   "is"     - a type without Unwrap whose Is(target) reports target == the wrapped VALUE: only that very value matches
RootOf(b) == CASE b \in ErrClasses -> {b}
               [] b \in {"optClaim", "optField"} -> {"missingOptional"}
               [] b \in {"manClaim", "manField"} -> {"missingMandatory"}
               [] b \in {"claimNIP", "fieldNIP"} -> {"notInProfile"}
               [] OTHER -> {}
RECURSIVE ChainState(_, _)
ChainState(chain, n) ==        \* [cls, exact]: classes errors.Is reaches; exact = the value IS a root sentinel
  IF n = 1 THEN [cls |-> RootOf(chain[1]), exact |-> chain[1] \in ErrClasses]
  ELSE LET inner == ChainState(chain, n - 1)  w == chain[n] IN
       CASE w = "v"  -> [cls |-> {}, exact |-> FALSE]
         [] w = "is" -> [cls |-> IF inner.exact THEN inner.cls ELSE {}, exact |-> FALSE]
         [] OTHER    -> [cls |-> inner.cls, exact |-> FALSE]
ChainClasses(chain) == IF chain[1] = "nil" THEN {} ELSE ChainState(chain, Len(chain)).cls

\* ---------- sanity: tie the definitions to independent facts ----------
ASSUME Cardinality({v \in 0..65535 : LifeCycleValid(v)}) = 7 * 256
ASSUME \A s \in 0..6 : {v \in 0..65535 : LifeCycleState(v) = s} = (s * 4096)..(s * 4096 + 255)
ASSUME LifeCycleState(4351) = 1 /\ LifeCycleState(4352) = 7 /\ LifeCycleState(24576) = 6 /\ LifeCycleState(24832) = 7
ASSUME IsEAN13(EAN13) /\ IsEAN13p5(EAN13p5) /\ ~IsEAN13(EAN13p5) /\ ~IsEAN13p5(EAN13)
ASSUME {s \in CertShapes : IsEAN13(s) \/ IsEAN13p5(s)} = {EAN13, EAN13p5}
ASSUME {n \in 0..80 : HashLenOK(n)} = {32, 48, 64}
====
