---- MODULE Sim_Claims ----
(***************************************************************************)
(* gen step for setter histories (C11, C18, C01's "depends on nothing      *)
(* else"): TLC simulates behaviours of PsaClaims over class-level          *)
(* arguments, valid and invalid interleaved, and writes each behaviour's   *)
(* operation list as one JSON line.  The harness replays every prefix      *)
(* against a real claims-set; the judge validates the recorded steps.      *)
(* Ext is an outside mutation of a stored component through a retained     *)
(* pointer (the claims-set is told nothing): the spec takes whatever the   *)
(* projection shows afterwards.                                            *)
(***************************************************************************)
EXTENDS PsaClaimsSM, Json, IOUtils, CSV
CONSTANT Depth
VARIABLE hist
svars == <<obj, ret, hist>>
H(n) == Bytes(n, 2)
ArgDom(p, c) ==
  CASE c = "implId"    -> {H(32), H(32), H(31), H(33), H(0)}
    [] c = "instId"    -> {Bytes(33, 1), Bytes(33, 0), Bytes(33, 2), Bytes(32, 1), Bytes(34, 1)}
    [] c = "bootSeed"  -> {H(32), H(8), H(20), H(7), H(33), H(0)}
    [] c = "nonce"     -> {H(32), H(48), H(64), H(31), H(65), H(8)}
    [] c = "lifecycle" -> {IntV(v) : v \in {0, 255, 256, 12288, 24831, 24832, 65535}}
    [] c = "clientId"  -> {IntV(v) : v \in {-2147483647 - 1, -1, 0, 2147483647}}
    [] c = "certRef"   -> {Text(EAN13), Text(EAN13p5), Text(Rep(12, "D")), Text(EAN13p5 \o <<"X">>), Text(<<>>)}
    [] c = "vsi"       -> {Str(0, 0), Str(12, 0), Str(7, 1), Str(9, 2)}
OkA == Comp(Abs, H(32), Abs, H(32), Abs)
OkB == Comp(Str(2, 0), H(48), Str(5, 1), H(64), Str(6, 2))
BadLen == Comp(Abs, H(31), Abs, H(32), Abs)
BadMissing == Comp(Str(2, 0), H(32), Abs, Abs, Abs)
SwArgs == {<<>>, <<OkA>>, <<OkB>>, <<OkA, OkB>>, <<OkB, OkA, OkA>>, <<BadLen>>, <<OkA, BadMissing>>, <<BadLen, OkB>>}
Settable == {"implId", "instId", "bootSeed", "nonce", "lifecycle", "clientId", "certRef", "vsi"}
Log(o) == hist' = Append(hist, o)
\* (half of the behaviours contain outside assignments - Poke -, the other half end in a canonical replay)
SimInit == Init /\ \E b \in BOOLEAN : hist = <<[op |-> "New", p |-> obj.p, poke |-> b]>>
Last == hist[Len(hist)]
Step ==
  \/ \E c \in Settable : \E v \in ArgDom(obj.p, c) : Set(c, v) /\ Log([op |-> "Set", c |-> c, arg |-> v, held |-> FALSE])
  \* the setter called with the very value the claims-set holds already (set earlier, or assigned from outside)
  \/ \E c \in Settable, w \in 1..3 : /\ Present(obj[c])
                                    /\ LET v == IF obj[c].k = "nonces" THEN obj[c].s[1] ELSE obj[c] IN
                                       Set(c, v) /\ Log([op |-> "Set", c |-> c, arg |-> v, held |-> TRUE])
  \/ \E l \in SwArgs : SetSw(l) /\ Log([op |-> "SetSw", l |-> l, isnil |-> FALSE])
  \/ SetSwNil /\ Log([op |-> "SetSw", l |-> <<>>, isnil |-> TRUE])
  \/ \E l \in {<<OkA>>, <<OkB, OkA>>, <<BadLen>>} :
       ~(obj.p = "P1" /\ Present(obj.noSw)) /\ Len(obj.sw.l) + Len(l) <= 4 /\ AddSw(l) /\ Log([op |-> "AddSw", l |-> l])
  \/ Validate /\ Log([op |-> "Read"])
  \/ \E i \in 1..Len(obj.sw.l) : \E f \in {"mv", "sid"} : \E v \in {H(32), H(4), Abs} :
       /\ obj' = [obj EXCEPT !.sw = SwV([obj.sw.l EXCEPT ![i][f] = v])]
       /\ ret' = RetRec("Ext", "sw", RetOK(Abs), Abs)
       /\ Log([op |-> "Ext", ix |-> i, f |-> f, arg |-> v])
  \* outside assignment of a scalar claim field (valid, invalid or absent): the claims-set simply holds it afterwards
  \/ \E c \in Settable : \E v \in ArgDom(obj.p, c) \cup {Abs} :
       /\ hist[1].poke
       /\ obj' = [obj EXCEPT ![c] = IF v = Abs THEN Abs ELSE Stored(obj.p, c, v)]
       /\ ret' = RetRec("Ext", c, RetOK(Abs), Abs)
       /\ Log([op |-> "Poke", c |-> c, arg |-> v])
\* after Depth operations exactly one successor closes the behaviour
Close == Len(hist) = Depth + 1 /\ Last.op # "End" /\ Log([op |-> "End"]) /\ UNCHANGED <<obj, ret>>
SimNext == (Len(hist) <= Depth /\ Step) \/ Close
SimSpec == SimInit /\ [][SimNext]_svars
\* one JSON line per finished behaviour
Emit == Last.op # "End" \/ CSVWrite("%1$s", <<ToJson(hist)>>, IOEnv.OUT)
====
