---- MODULE PsaClaimsSM ----
(***************************************************************************)
(* The claims-set state machine: one action per public call, built from    *)
(* the step functions of PsaClaims, and the design-level properties that   *)
(* TLC checks on bounded instances (MC_Claims_*.cfg).                      *)
(***************************************************************************)
EXTENDS PsaClaims
CONSTANTS Profiles,           \* subset of {"P1","P2"}
          DomBytes,           \* byte-string lengths offered to setters
          DomLC, DomCert, DomSw, DomInvalid,
          MaxComps            \* bound on the component list grown by Add
VARIABLES obj, ret
cvars == <<obj, ret>>

RetRec(op, c, r, arg) == [op |-> op, c |-> c, ok |-> r.ok, cls |-> r.cls, arg |-> arg]
Init == \E p \in Profiles : obj = Fresh(p, Canon(p)) /\ ret = RetRec("New", "none", RetOK(Abs), Abs)

Set(c, v)  == LET r == SetF(obj, c, v) IN obj' = r.post /\ ret' = RetRec("Set", c, r.ret, v)
SetSw(l)   == LET r == SetSwF(obj, l, FALSE) IN obj' = r.post /\ ret' = RetRec("Set", "sw", r.ret, Abs)
SetSwNil   == LET r == SetSwF(obj, <<>>, TRUE) IN obj' = r.post /\ ret' = RetRec("Set", "swnil", r.ret, Abs)
AddSw(l)   == LET r == AddSwF(obj, l) IN obj' = r.post /\ ret' = RetRec("Add", "sw", r.ret, Abs)
Get(c)     == \E r \in GetterRets(obj, c) : ret' = RetRec("Get", c, r, Abs) /\ UNCHANGED obj
Validate   == \E r \in ValidateRets(obj) : ret' = RetRec("Validate", "none", r, Abs) /\ UNCHANGED obj
\* a claims-set produced by decoding may hold any value (decoding does not validate)
Decoded(o) == obj' = o /\ ret' = RetRec("Decoded", "none", RetOK(Abs), Abs)

Next == \/ \E v \in DomLC : Set("lifecycle", IntV(v))
        \/ \E n \in DomBytes : Set("implId", Bytes(n, 2)) \/ Set("bootSeed", Bytes(n, 2)) \/ Set("nonce", Bytes(n, 2))
        \/ \E n \in DomBytes, b \in 0..2 : Set("instId", Bytes(n, b))
        \/ \E s \in DomCert : Set("certRef", Text(s))
        \/ \E n \in 0..1 : Set("vsi", Str(n, 0))
        \/ \E v \in {-2147483647 - 1, 0, 2147483647} : Set("clientId", IntV(v))
        \/ \E l \in DomSw : SetSw(l)
        \/ \E l \in DomSw : ~(obj.p = "P1" /\ Present(obj.noSw)) /\ Len(obj.sw.l) + Len(l) <= MaxComps /\ AddSw(l)   \* container op; the container is gone under the flag
        \/ SetSwNil \/ Validate
        \/ \E c \in IClaims : Get(c)
        \/ \E o \in DomInvalid : o.p = obj.p /\ Decoded(o)
Spec == Init /\ [][Next]_cvars

\* ---------- properties of the model (C11 / C01 / C13 / C18 at design level) ----------
IsSet == ret'.op = "Set" /\ ret'.c \in ScalarClaims
\* a setter succeeds iff validation would accept the value for that claim, alone
SetterAgrees == [][IsSet => (ret'.ok <=> ClaimOK([Blank(obj.p, obj.canon) EXCEPT ![ret'.c] = Stored(obj.p, ret'.c, ret'.arg)], ret'.c))]_cvars
\* after success the getter returns exactly the value
SetterStores == [][IsSet /\ ret'.ok => GetterRets(obj', ret'.c) = {RetOK(ret'.arg)}]_cvars
AtomicOnFailure == [][ret'.op \in {"Set","Add"} /\ ~ret'.ok => obj' = obj]_cvars
OnlyTargetChanges == [][ret'.op = "Set" =>
                          \A c \in Claims : (c = ret'.c) \/ (ret'.c \in {"sw","swnil"} /\ c \in {"sw","noSw"}) \/ obj'[c] = obj[c]]_cvars
ReadOpsPure == [][ret'.op \in {"Validate","Get"} => obj' = obj]_cvars
\* profile 1 never holds both a component list and the no-measurements flag after a setter
P1Exclusive == [][ret'.op = "Set" /\ ret'.c \in {"sw","swnil"} /\ ret'.ok /\ obj.p = "P1"
                    => ~(Len(obj'.sw.l) > 0 /\ Present(obj'.noSw))]_cvars
\* validation verdict and getter verdicts agree (validation = the ten getters, missing-optional ignored)
ValidIffGetters == Valid(obj) <=> \A c \in IClaims : \A r \in GetterRets(obj, c) : r.ok \/ r.cls = {"missingOptional"}
\* after a successful validation every mandatory getter succeeds
ValidThenMandatoryGettersOK == Valid(obj) => \A c \in Mandatory(obj.p) : \A r \in GetterRets(obj, c) : r.ok
\* an error always carries exactly one class, and it is a sentinel class
ErrorsClassified == ~ret.ok => Cardinality(ret.cls) = 1 /\ ret.cls \subseteq ErrClasses
\* (ret is not part of the VIEW the bounded instances use, and TLC evaluates state invariants on new view-distinct
\* states only: predicates about what the last call returned are therefore checked as action properties, on every step)
ErrorsClassifiedStep == [][ErrorsClassified']_cvars
\* every mandatory claim set successfully (nothing decoded, list not cleared) => the set validates
MandatorySetImpliesValid == (\A c \in Mandatory(obj.p) : "missingMandatory" \notin StatusSet(obj, c)) => Valid(obj)
View == obj
====
