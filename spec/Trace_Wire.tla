---- MODULE Trace_Wire ----
(***************************************************************************)
(* Judge for the wire family.  Events:                                     *)
(*  DecodeCBOR  token bytes (projected by the independent reader) through  *)
(*              DecodeClaimsFromCBOR and DecodeAndValidateClaimsFromCBOR   *)
(*  EncodeCBOR  a claims-set through the encoders, output parsed by the    *)
(*              independent reader (C10), decoded again and re-encoded     *)
(*              (C09)                                                      *)
(***************************************************************************)
EXTENDS PsaJson, TraceLib
VARIABLES l, bad, kf
tvars == <<l, bad, kf>>

RegOf(e) == LET names == {e.reg[i].name : i \in 1..Len(e.reg)} IN
            [n \in names |-> LET i == CHOOSE j \in 1..Len(e.reg) : e.reg[j].name = n IN
                             [p |-> e.reg[i].p, canon |-> e.reg[i].canon, impl |-> e.reg[i].impl, tag |-> e.reg[i].tag]]
GetOK(o, c, r) == ObsRet(r) \in GetterRets(o, c)
ReadsOK(o, e) == /\ \A c \in IClaims : GetOK(o, c, e.get[c])
                 /\ (e.get["sw"].ok => /\ Len(e.cget) = Len(o.sw.l)
                                       /\ \A i \in 1..Len(e.cget) : \A f \in CompFields : ObsRet(e.cget[i][f]) \in CompGetRets(o.sw.l[i], f))
                 /\ ObsRet(e.vret) \in ValidateRets(o)
\* C04 (+ the CBOR half of C07): acceptance = conformance to the declared profile; values = the wire.
\* tol = the named deviations (known findings) tolerated while explaining the event
DecodeCBOROK(tol, e) ==
  LET d == DispatchCBOR(RegOf(e), e.tok) IN
  e.probeOK /\            \* whatever was presented, the two fixed conformant tokens are still accepted afterwards (no state across calls)
  CASE d.r = "open" -> TRUE
    [] d.r = "err"  -> ~e.dec.ok /\ ~e.val.ok
    [] OTHER ->
       LET x == DecodeTok(tol, d.e.p, d.e.canon, e.tok)
           verdict == VerdictOf(e.tok, x) IN
       /\ (verdict = "accept" => /\ e.val.ok /\ e.dec.ok
                                 /\ e.val.impl = d.e.impl /\ e.val.obj = x.o)
       /\ (verdict = "reject" => ~e.val.ok)
       /\ (e.val.ok => e.dec.ok)
       \* whatever decodes (validated or not) under a verdict of the spec carries exactly the wire values
       /\ (e.dec.ok /\ x.r = "ok" => e.dec.impl = d.e.impl /\ e.dec.obj = x.o /\ ReadsOK(x.o, e))

\* keys / members an extension profile adds (harness profile X2: one optional integer claim)
ExtraKeys(o) == IF o.canon = "http://example.com/x2" THEN {-75100} ELSE {}
ExtraMembers(o) == IF o.canon = "http://example.com/x2" THEN {"timestamp"} ELSE {}
\* C10 (wire format of every emitted token) and C09 (decode . encode = identity, bytes stable)
\* a no-measurements flag other than 1 is left open by the specifications: no verdict
FlagOpen(o) == Present(o.noSw) /\ o.noSw.v # 1
EncodeCBOROK(e) ==
  LET o == e.pre IN
  FlagOpen(o) \/
  /\ e.post = o /\ e.prevIntact
  /\ (Valid(o) => /\ e.enc.ok /\ e.enc.wf /\ e.enc.trail = 0
                   /\ WireFormatOKx(o, e.enc.tok, ExtraKeys(o))
                   /\ e.vencOK /\ e.vencSame                              \* the validating encoder emits the same bytes
                   /\ e.redec.ok /\ e.redec.obj = o /\ e.regetEq          \* decoding gives the same claims-set
                   /\ e.reencOK /\ e.reencEq /\ e.twice)                  \* and the identical bytes again
  /\ (~Valid(o) => ~e.vencOK)
  \* a decodable-but-invalid set: the encoder errs, or what it emits decodes to the same getter results
  /\ (~Valid(o) /\ e.enc.ok => e.redec.ok /\ e.regetEq)
\* C12: JSON member names / forms / omission, JSON round trip through the dispatching decoder, CBOR <-> JSON
EncodeJSONOK(e) ==
  LET o == e.pre IN
  FlagOpen(o) \/
  /\ e.post = o /\ e.prevIntact
  /\ (Valid(o) => /\ e.encOK /\ e.wf /\ JsonFormatOKx(o, e.doc, ExtraMembers(o))
                   /\ e.vencOK /\ e.vencEq /\ e.evJsonEq
                   /\ e.redec.ok /\ e.redec.obj = o /\ e.regetEq
                   /\ LET d == DispatchJSON(RegOf(e), e.doc) IN d.r = "ok" /\ d.e.impl = e.redec.impl
                   /\ e.crossOK /\ e.crossEq)
  /\ (~Valid(o) => ~e.vencOK)
\* MODE=dispatch (C07): the acceptance deviations that belong to C04 (D9, D10, D11) are tolerated silently,
\* what remains is the dispatch: chosen implementation, unregistered => error, reported profile
AllTol == {"D9", "D10", "D11"}
\* C03: sign -> decode -> verify binds exactly the validated claims (and C10 for the signed payload)
SignRTOK(e) ==
  LET o == e.pre IN
  /\ ~e.panicked
  /\ (Valid(o) =>
        /\ e.signOK
        /\ e.ti.wf /\ e.ti.tag = 18 /\ e.ti.arrLen = 4 /\ e.ti.trail = 0     \* a tagged COSE_Sign1
        /\ e.ti.protOnlyAlg /\ e.ti.alg = e.alg /\ e.ti.unprotEmpty         \* protected header = the signer's algorithm, nothing else
        /\ e.payloadEq                                                       \* payload = the validated encoding, byte for byte
        /\ WireFormatOKx(o, e.ptok, ExtraKeys(o))
        /\ e.verSelf                                                         \* verifies on the signing Evidence itself
        /\ e.decOK /\ e.decObj = o /\ e.getEq /\ e.bound                     \* decoding returns the same claims, claim for claim
        /\ e.verDec /\ ~e.verWrong)
  /\ (~Valid(o) /\ e.validated => ~e.signOK)
\* C08: a validating entry point fails whenever validation fails - emitting / attaching nothing - and
\* otherwise behaves exactly like its non-validating sibling
BuildGates == {"SetClaims", "EncodeCBOR", "EncodeJSON", "Sign"}
\* "validation" is the claims-set's own Validate(): for the harness' extension profile X2 that is the profile-2 rules
\* plus its own one (the timestamp claim, when present, is not negative)
GatesOK(e) ==
  LET o == e.pre
      extOK == ~e.ts.present \/ e.ts.v >= 0
      ValidG(x) == Valid(x) /\ extOK IN
  /\ ~e.panicked /\ e.post = o
  /\ e.vret.ok = ValidG(o)
  /\ \A g \in DOMAIN e.gates : LET r == e.gates[g] IN
        IF g \in BuildGates
        THEN /\ (~ValidG(o) => ~r.ok /\ r.none)
             /\ (ValidG(o) /\ r.sibOK => r.ok /\ r.same)
        ELSE \* decode gates, fed with what the sibling encoder / signer produced
             /\ (r.ok => r.sibOK /\ ValidG(r.sibObj) /\ r.obj = r.sibObj /\ r.same)
             /\ (r.sibOK /\ ValidG(r.sibObj) => r.ok)
             /\ (~r.ok => r.none)
\* C07, JSON side: the implementation registered under the declared profile (default profile 1), an unregistered
\* value is an error, the outcome does not depend on the register's iteration order, a token is validated under the
\* rules of the profile it declares and an accepted one reports that profile
DecodeJSONOK(e) ==
  LET d == DispatchJSON(RegOf(e), e.doc) IN
  /\ Len(e.outs) = 1                                              \* one outcome over repeated dispatch
  /\ e.probeOK                                                    \* the fixed conformant documents are still accepted afterwards
  /\ IF d.r # "ok" THEN ~e.dec.ok /\ ~e.val.ok /\ e.outs = <<"err">>
     ELSE /\ (e.dec.ok => e.dec.impl = d.e.impl /\ e.dec.obj.p = d.e.p /\ e.dec.obj.canon = d.e.canon /\ ReadsOK(e.dec.obj, e))
          /\ (e.val.ok => e.dec.ok /\ e.val.impl = d.e.impl /\ Valid(e.val.obj) /\ e.val.obj = e.dec.obj
                              /\ ObsRet(e.get["profile"]) = RetOK(Prof(d.e.canon)))
          /\ (e.dec.ok /\ ~Valid(e.dec.obj) => ~e.val.ok)
          /\ (e.dec.ok /\ Valid(e.dec.obj) => e.val.ok)
          \* ... and value for value what PsaJson!DecodeDoc makes of the document (built-in profiles; the extension
          \* profile X2 = profile-2 rules unless its own member is there; case-variant member names: no verdict)
          /\ LET x == DecodeDoc(d.e.p, d.e.canon, e.doc)
                 skip == e.foldAlias \/ d.e.impl \notin {"P1", "P2", "X2"} \/ (d.e.impl = "X2" /\ "timestamp" \in Members(e.doc)) IN
             skip \/ x.r = "open" \/
             /\ (x.r = "ok" /\ Valid(x.o) => e.val.ok /\ e.val.obj = x.o)
             /\ (x.r = "err" \/ ~Valid(x.o) => ~e.val.ok)
             /\ (e.dec.ok /\ x.r = "ok" => e.dec.obj = x.o /\ ReadsOK(x.o, e))
MatchT(tol, e) ==
  CASE e.op = "SignRT" -> SignRTOK(e)
    [] e.op = "DecodeJSON" -> DecodeJSONOK(e)
    [] e.op = "Gates" -> GatesOK(e)
    [] e.op = "DecodeCBOR" -> DecodeCBOROK(IF Mode = "dispatch" THEN AllTol ELSE tol, e)
    [] e.op = "EncodeCBOR" -> EncodeCBOROK(e)
    [] e.op = "EncodeJSON" -> EncodeJSONOK(e)
    [] OTHER -> FALSE
TInit == l = 1 /\ bad = <<>> /\ kf = <<>>
TNext == /\ l <= Len(Trace) /\ l' = l + 1
         /\ LET e == Trace[l]
                M(T) == MatchT(T, e)
                x == Explain(M) IN
            /\ bad' = IF x.found THEN bad ELSE Append(bad, l)
            /\ kf' = IF x.found /\ x.ids # {} THEN Append(kf, [i |-> l, ids |-> x.ids]) ELSE kf
TSpec == TInit /\ [][TNext]_tvars
IsDec(i) == Trace[i].op = "DecodeCBOR"
Verdict == l = Len(Trace) + 1 =>
   WriteVerdict([n |-> Len(Trace), bad |-> bad, kf |-> kf,
                 accepted |-> Cardinality({i \in 1..Len(Trace) : IsDec(i) /\ Trace[i].val.ok}),
                 rejected |-> Cardinality({i \in 1..Len(Trace) : IsDec(i) /\ ~Trace[i].val.ok})])
====
