---- MODULE Trace_Wire ----
(***************************************************************************)
(* Judge for the wire family.  Events:                                     *)
(*  DecodeCBOR  token bytes (projected by the independent reader) through  *)
(*              DecodeClaimsFromCBOR and DecodeAndValidateClaimsFromCBOR   *)
(*  EncodeCBOR  a claims-set through the encoders, output parsed by the    *)
(*              independent reader (C10), decoded again and re-encoded     *)
(*              (C09)                                                      *)
(***************************************************************************)
EXTENDS PsaWire, TraceLib
VARIABLES l, bad, kf
tvars == <<obj, ret, l, bad, kf>>

RegOf(e) == LET names == {e.reg[i].name : i \in 1..Len(e.reg)} IN
            [n \in names |-> LET i == CHOOSE j \in 1..Len(e.reg) : e.reg[j].name = n IN
                             [p |-> e.reg[i].p, canon |-> e.reg[i].canon, impl |-> e.reg[i].impl]]
GetOK(o, c, r) == ObsRet(r) \in GetterRets(o, c)
ReadsOK(o, e) == /\ \A c \in IClaims : GetOK(o, c, e.get[c])
                 /\ (e.get["sw"].ok => /\ Len(e.cget) = Len(o.sw.l)
                                       /\ \A i \in 1..Len(e.cget) : \A f \in CompFields : ObsRet(e.cget[i][f]) \in CompGetRets(o.sw.l[i], f))
                 /\ ObsRet(e.vret) \in ValidateRets(o)
\* C04 (+ the CBOR half of C07): acceptance = conformance to the declared profile; values = the wire.
\* tol = the named deviations (known findings) tolerated while explaining the event
DecodeCBOROK(tol, e) ==
  LET d == DispatchCBOR(RegOf(e), e.tok) IN
  CASE d.r = "open" -> TRUE
    [] d.r = "err"  -> ~e.dec.ok /\ ~e.val.ok
    [] OTHER ->
       LET x == DecodeTok(tol, d.e.p, d.e.canon, e.tok)
           verdict == VerdictOf(e.tok, x) IN
       /\ (verdict = "accept" => /\ e.val.ok /\ e.dec.ok
                                 /\ e.val.impl = d.e.impl /\ e.val.obj = x.o)
       /\ (verdict = "reject" => ~e.val.ok)
       /\ (e.val.ok => e.dec.ok)
       \* whatever decodes (validated or not) under a verdict of the spec carries exactly the wire values
       /\ (e.dec.ok /\ x.r = "ok" => e.dec.impl = d.e.impl /\ e.dec.obj = x.o /\ ReadsOK(x.o, e))

MatchT(tol, e) ==
  CASE e.op = "DecodeCBOR" -> DecodeCBOROK(tol, e)
    [] OTHER -> FALSE
TInit == l = 1 /\ bad = <<>> /\ kf = <<>> /\ obj = Blank("P1", P1Name) /\ ret = RetRec("New", "none", RetOK(Abs), Abs)
TNext == /\ l <= Len(Trace) /\ l' = l + 1
         /\ LET e == Trace[l]
                M(T) == MatchT(T, e)
                x == Explain(M) IN
            /\ bad' = IF x.found THEN bad ELSE Append(bad, l)
            /\ kf' = IF x.found /\ x.ids # {} THEN Append(kf, [i |-> l, ids |-> x.ids]) ELSE kf
         /\ UNCHANGED <<obj, ret>>
TSpec == TInit /\ [][TNext]_tvars
IsDec(i) == Trace[i].op = "DecodeCBOR"
Verdict == l = Len(Trace) + 1 =>
   WriteVerdict([n |-> Len(Trace), bad |-> bad, kf |-> kf,
                 accepted |-> Cardinality({i \in 1..Len(Trace) : IsDec(i) /\ Trace[i].val.ok}),
                 rejected |-> Cardinality({i \in 1..Len(Trace) : IsDec(i) /\ ~Trace[i].val.ok})])
====
