SPECIFICATION SSpec
CONSTANTS
  Names = {"http://example.com/n1", "http://example.com/n2", "http://example.com/n3", "http://example.com/n4", "http://example.com/n5", "http://example.com/n6", "http://example.com/n7", "http://example.com/n8"}
  Kinds <- MCKinds
  MaxInst = 4
  MaxReg = 12
  Docs = {}
  Toks = {}
  Depth = 30
  NBatJ = 52
  NBatC = 20
INVARIANT Emit
CHECK_DEADLOCK FALSE
