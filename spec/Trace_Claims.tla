---- MODULE Trace_Claims ----
(***************************************************************************)
(* Judge for the claims-set family.  Every event is one public call (or    *)
(* one read-side battery) on a real claims-set, with the projection Abs of *)
(* the object before and after.  Events with i = 0 start a behaviour;      *)
(* within a behaviour the logged pre-state must equal the state the spec   *)
(* reached (the previous observed post-state).                             *)
(*                                                                         *)
(* Read    validate + the ten getters, repeated, snapshot before / after   *)
(* Set     one scalar setter                                               *)
(* SetSw   SetSoftwareComponents (list or nil)                             *)
(* AddSw   container Add                                                   *)
(* CompSet / CompGet   component setters and getters                       *)
(* Canon   end of a setter history: the encodings of the history and of    *)
(*         its canonical replay                                            *)
(***************************************************************************)
EXTENDS PsaClaimsSM, TraceLib
VARIABLES l, bad
tvars == <<obj, ret, l, bad>>

\* observed getter result of claim c matches one of the spec's admissible results
GetOK(o, c, r) == ObsRet(r) \in GetterRets(o, c)
\* the getters of the components handed out by a successful GetSoftwareComponents
CompGettersOK(o, e) == e.get["sw"].ok =>
  /\ Len(e.cget) = Len(o.sw.l)
  /\ \A i \in 1..Len(e.cget) : \A f \in CompFields : ObsRet(e.cget[i][f]) \in CompGetRets(o.sw.l[i], f)
ReadOK(e) ==
  /\ ObsRet(e.vret) \in ValidateRets(e.pre)
  /\ \A c \in IClaims : GetOK(e.pre, c, e.get[c])
  /\ CompGettersOK(e.pre, e)
  /\ e.post = e.pre /\ e.snapEq /\ e.encEq /\ e.repEq           \* reading changes nothing, repeats identically
  \* Evidence.GetInstanceID / GetImplementationID: the claim's value, or nothing when its getter fails
  /\ e.evInst = (IF ClaimOK(e.pre, "instId") THEN e.pre.instId ELSE Abs)
  /\ e.evImpl = (IF ClaimOK(e.pre, "implId") THEN e.pre.implId ELSE Abs)
\* error returned by a failed call: one of the admissible classes, exactly one class
ErrOK(r, admissible) == ~r.ok /\ Cardinality(SeqToSet(r.cls)) = 1 /\ SeqToSet(r.cls) \subseteq admissible
StepOK(e, x) ==          \* x = [post, ret] computed by the spec's step function
  /\ e.post = x.post
  /\ e.ret.ok = x.ret.ok
  /\ (~x.ret.ok => ErrOK(e.ret, x.ret.cls) /\ e.encPost = e.encPre)     \* failure: observably unchanged
SetOK(e) ==
  /\ StepOK(e, SetF(e.pre, e.c, e.arg))
  /\ (e.ret.ok => ObsRet(e.getAfter) = RetOK(e.arg))                     \* the getter returns exactly the value
SetSwOK(e) ==
  /\ StepOK(e, SetSwF(e.pre, e.arg.l, e.arg.isnil))
  /\ (e.ret.ok /\ ~e.arg.isnil /\ Len(e.arg.l) > 0 => ObsRet(e.getAfter) = RetOK(e.arg.l))
AddSwOK(e) == StepOK(e, AddSwF(e.pre, e.arg.l))
CompSetOK(e) == LET x == CompSetF(e.cpre, e.f, e.arg) IN
  /\ e.cpost = x.post /\ e.ret.ok = x.ret.ok /\ (~x.ret.ok => ErrOK(e.ret, x.ret.cls))
CompGetOK(e) == \A f \in CompFields : ObsRet(e.get[f]) \in CompGetRets(e.cpre, f)
\* order / repetition independence: the spec state after the history equals the one after the
\* canonical replay, so the observed encodings must be equal too; all mandatory set => valid
CanonOK(e) ==
  LET p == e.pre.p
      allSet == (Mandatory(p) \ {"profile"}) \subseteq SeqToSet(e.setOK) /\ ~e.swCleared /\ ~e.hadExt
  IN /\ e.post = e.pre
     /\ e.canonPost = e.pre
     /\ e.encHist = e.encCanon
     /\ (allSet => Valid(e.pre) /\ e.vret.ok)
     /\ ObsRet(e.vret) \in ValidateRets(e.pre)
\* the error filter: nil exactly for nil, missing-optional and not-in-profile errors; any other
\* error comes back unchanged (the identical value)
\* (the class set is computed twice: by errors.Is on the real value, and by the specification's model of Go error chains)
FilterOK(e) == /\ SeqToSet(e.cls) = ChainClasses(e.chain)
               /\ e.out = (IF Filtered(e.isNil, ChainClasses(e.chain)) THEN "nil" ELSE "same")
\* component validation over an extension profile's component type whose getter for one field returns the chain: the
\* three entry points accept exactly when the filter would drop that error, and otherwise report its classes
CompFilterOK(e) ==
  LET cls == ChainClasses(e.chain)  pass == Filtered(e.isNil, cls)
      One(r) == r.ok = pass /\ (~pass => cls \subseteq SeqToSet(r.cls)) IN
  ~e.panicked /\ One(e.direct) /\ One(e.list) /\ One(e.add)
\* overwriting the input buffer after decoding changes nothing
ScribbleOK(e) == e.post = e.pre /\ e.same /\ e.encSame
\* the exported per-claim validators
HashAlgIDs == {"md2", "md5", "sha-1", "sha-224", "sha-256", "sha-384", "sha-512", "shake128", "shake256"}
ValidatorOK(e) ==
  LET a == e.arg
      ok == CASE e.fn = "ValidateImplID" -> ImplIdOK(a)
              [] e.fn \in {"ValidatePSAHashType", "ValidateNonce"} -> HashOK(a)
              [] e.fn = "ValidateInstID" -> InstIdOK(a)
              [] e.fn = "ValidateVSI" -> VsiOK(a)
              [] e.fn = "ValidateHashAlgID" -> a.s[1] \in HashAlgIDs
              [] e.fn = "ValidateSwComponents" -> Len(a.l) > 0 /\ ListClasses(a.l) = {}
  IN /\ e.ret.ok = ok
     /\ (~ok => IF e.fn = "ValidateSwComponents" /\ Len(a.l) > 0 THEN ErrOK(e.ret, ListClasses(a.l)) ELSE ErrOK(e.ret, {"wrongSyntax"}))
\* an outside mutation of a stored component: the spec takes the observed state
ExtOK(e) == TRUE

Match(e) ==
  CASE e.op = "Read"    -> ReadOK(e)
    [] e.op = "Set"     -> SetOK(e)
    [] e.op = "SetSw"   -> SetSwOK(e)
    [] e.op = "AddSw"   -> AddSwOK(e)
    [] e.op = "CompSet" -> CompSetOK(e)
    [] e.op = "CompGet" -> CompGetOK(e)
    [] e.op = "Canon"   -> CanonOK(e)
    [] e.op = "Ext"     -> ExtOK(e)
    [] e.op = "Filter"  -> FilterOK(e)
    [] e.op = "CompFilter" -> CompFilterOK(e)
    [] e.op = "Validator" -> ValidatorOK(e)
    [] e.op = "Scribble" -> ScribbleOK(e)
    [] OTHER -> FALSE
HasState(e) == e.op \in {"Read", "Set", "SetSw", "AddSw", "Canon", "Ext"}
Chained(e) == e.i = 0 \/ ~HasState(e) \/ e.pre = obj

TInit == l = 1 /\ bad = <<>> /\ obj = Blank("P1", P1Name) /\ ret = RetRec("New", "none", RetOK(Abs), Abs)
TNext == /\ l <= Len(Trace) /\ l' = l + 1
         /\ LET e == Trace[l] IN
            /\ bad' = IF Chained(e) /\ Match(e) THEN bad ELSE Append(bad, l)
            /\ obj' = IF HasState(e) THEN e.post ELSE obj        \* (re)synchronise on the observed state
            /\ ret' = ret
TSpec == TInit /\ [][TNext]_tvars
Ops == {Trace[i].op : i \in 1..Len(Trace)}
Verdict == l = Len(Trace) + 1 =>
   WriteVerdict([n |-> Len(Trace), bad |-> bad, ops |-> Ops,
                 accepted |-> Cardinality({i \in 1..Len(Trace) : Trace[i].op = "Read" /\ Trace[i].vret.ok}),
                 rejected |-> Cardinality({i \in 1..Len(Trace) : Trace[i].op = "Read" /\ ~Trace[i].vret.ok})])
====
