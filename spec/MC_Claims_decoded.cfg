SPECIFICATION Spec
CONSTANTS
  Profiles = {"P1", "P2"}
  DomBytes = {0, 8, 32, 33, 48}
  DomLC = {0, 256, 12288}
  DomCert <- CertDom
  DomSw <- SwDom
  MaxComps = 2
  DomInvalid <- InvalidDom
INVARIANTS ValidIffGetters ValidThenMandatoryGettersOK
PROPERTIES SetterAgrees SetterStores AtomicOnFailure OnlyTargetChanges ReadOpsPure P1Exclusive ErrorsClassifiedStep
VIEW View
CHECK_DEADLOCK FALSE
