INIT GInit
NEXT GNext
CONSTANTS
  Profiles = {"P1"}
  DomBytes = {}
  DomLC = {}
  DomCert = {}
  DomSw = {}
  DomInvalid = {}
  MaxComps = 0
CHECK_DEADLOCK FALSE
