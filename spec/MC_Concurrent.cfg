SPECIFICATION CSpec
CONSTANTS
  N = 2
  Batches = 1
INVARIANTS NoSharedWrite
CHECK_DEADLOCK FALSE
