---- MODULE Trace_Evidence ----
(***************************************************************************)
(* Judge for Evidence histories (C19; the same steps decide C08's signing  *)
(* gates, C03's token format and C18's verify purity).  The spec state ev  *)
(* is carried from event to event; every event is one public call on one   *)
(* real Evidence, with the projection (claims id, envelope, ghost flag)     *)
(* before and after, and what the call returned.                           *)
(***************************************************************************)
EXTENDS MC_Evidence, TraceLib
VARIABLES l, bad
tvars == <<evars, l, bad>>
StepOf(e) ==
  CASE e.op = "SetClaims"       -> SetClaimsF(e.pre, e.arg)
    [] e.op = "Attach"          -> AttachF(e.pre, e.arg)
    [] e.op = "Sign"            -> SignF(e.pre, e.arg, FALSE)
    [] e.op = "ValidateAndSign" -> SignF(e.pre, e.arg, TRUE)
    [] e.op = "UnmarshalCOSE"   -> UnmarshalF(e.pre, e.arg)
    [] e.op = "Verify"          -> VerifyF(e.pre, e.arg)
IsSign(e) == e.op \in {"Sign", "ValidateAndSign"}
MatchE(e) ==
  LET x == StepOf(e) IN
  /\ ~e.panicked
  /\ e.post = x.post                                  \* claims, envelope, ghost flag
  /\ e.ret.ok = x.ret.ok
  /\ e.ret.tok = x.ret.tok                            \* the token returned is the spec's (none on failure)
  /\ (~e.ret.ok => ~e.ret.got)                        \* a failed operation returns no bytes
  /\ (IsSign(e) /\ e.ret.ok => e.ret.fmt)             \* tagged COSE_Sign1, protected = {1: alg}, unprotected empty
  /\ e.rep /\ e.snapEq                                \* verifying is repeatable and changes nothing
  \* the binding clause, stated directly on what was observed
  /\ (e.op = "Verify" /\ e.ret.ok /\ ~e.pre.replaced => e.pre.claims = "nil" \/ e.pre.claims = e.pre.msg.payload)
\* C02: what was presented (projected by the independent reader) verifies only if payload, protected-header
\* bytes and signature are those of an honest token and the key is the signer's
TamperOK(e) ==
  LET a == IF e.protStd \in Algs THEN e.protStd ELSE IF e.protStd = "none" THEN "none" ELSE "unsupported"
      m == [st |-> "some", payload |-> e.ti.payload, alg |-> a, sig |-> e.ti.sig] IN
  /\ ~e.panicked
  /\ (e.decOK => e.ti.wf)                                        \* only a well-formed tagged COSE_Sign1 decodes (C20)
  /\ (e.decOK => e.bound)                                        \* claims = decoding of the very payload presented
  /\ (e.decOK => \A k \in Keys : e.ver[k] = VerifyOKm(m, k))
  /\ (~e.decOK => \A k \in Keys : ~e.ver[k])
  /\ \A bk \in DOMAIN e.badVer : ~e.badVer[bk]                    \* what is no public key of the algorithm never verifies anything
\* C20: evidence decoding succeeds only for a well-formed tagged COSE_Sign1 carrying a claims map
EnvelopeEvOK(e) ==
  LET env == [tag |-> e.ti.tag, arrLen |-> e.ti.arrLen, wf |-> e.ti.wf, sigLen |-> e.sigLen, trail |-> e.ti.trail,
              payloadMap |-> e.payloadMap] IN
  /\ ~e.panicked /\ e.probeOK
  /\ ((e.dec1 \/ e.dec2) /\ ~e.payloadTag => EnvelopeOK(env))       \* (a tag before the claims map is left open)
  /\ e.dec1 = e.dec2                       \* both entry points agree
  /\ e.dec3 = e.dec2                       \* ... and so does an Evidence that decoded something else before from the same buffer
  /\ (e.dec1 => e.claims)                  \* success attaches claims
  /\ (e.kind = "canonical" => e.dec1)      \* (anti-vacuity: the canonical envelope is evidence)
Chained(e) == IF e.i = 0 THEN e.pre = EvInit ELSE e.pre = ev
TInit == EInit /\ l = 1 /\ bad = <<>>
TNext == /\ l <= Len(Trace) /\ l' = l + 1
         /\ LET e == Trace[l] IN
            /\ bad' = IF e.op = "Tamper" THEN (IF TamperOK(e) THEN bad ELSE Append(bad, l))
                       ELSE IF e.op = "Envelope" THEN (IF EnvelopeEvOK(e) THEN bad ELSE Append(bad, l))
                       ELSE IF Chained(e) /\ MatchE(e) THEN bad ELSE Append(bad, l)
            /\ ev' = IF e.op \in {"Tamper", "Envelope"} THEN ev ELSE e.post       \* (re)synchronise on the observed state
         /\ UNCHANGED <<signed, eret>>
TSpec == TInit /\ [][TNext]_tvars
Ops == {Trace[i].op : i \in 1..Len(Trace)}
Cnt(P(_)) == Cardinality({i \in 1..Len(Trace) : P(Trace[i])})
VOK(e) == (e.op = "Verify" /\ e.ret.ok) \/ (e.op = "Tamper" /\ e.ver["k1"]) \/ (e.op = "Envelope" /\ e.dec1)
VFail(e) == (e.op = "Verify" /\ ~e.ret.ok) \/ (e.op = "Tamper" /\ ~e.ver["k1"]) \/ (e.op = "Envelope" /\ ~e.dec1)
SFail(e) == e.op \in {"Sign", "ValidateAndSign"} /\ ~e.ret.ok
SOK(e) == e.op \in {"Sign", "ValidateAndSign"} /\ e.ret.ok
Verdict == l = Len(Trace) + 1 =>
   WriteVerdict([n |-> Len(Trace), bad |-> bad, ops |-> Ops, verifyOK |-> Cnt(VOK), verifyFail |-> Cnt(VFail),
                 signOK |-> Cnt(SOK), signFail |-> Cnt(SFail)])
====
