---- MODULE MC_Wire ----
(***************************************************************************)
(* Bounded instance of PsaWire: the claims-set is built claim by claim     *)
(* over a product of value classes (one action per claim, so that TLC      *)
(* explores the product in parallel), then encoded by the specification's  *)
(* own encoder and decoded again.  Checks, for every object of the         *)
(* product, valid or not:                                                  *)
(*   DecodeEncodeId  Decode(Encode(o)) = o                                 *)
(*   EncodeStable    Encode(Decode(Encode(o))) = Encode(o)                 *)
(*   ValidWireOK     valid => the encoding is the profile's wire format    *)
(*                   and decode-and-validate accepts it                    *)
(*   InvalidRejected invalid => decode-and-validate rejects it             *)
(* and that the named deviations only ever enlarge what is accepted.       *)
(***************************************************************************)
EXTENDS PsaWire
CONSTANT Full      \* TRUE: the full class product (373 248 objects); FALSE: two or three classes per claim
VARIABLES o, k
wvars == <<o, k>>
H(n) == [Bytes(n, 2) EXCEPT !.h = "h" \o ToString(n)]           \* content identity = the length class
\* ---------- the specification's encoder: a claims-set to its token ----------
Uint(v) == [NoneItem EXCEPT !.t = "uint", !.v = v, !.w = IF v <= 65535 THEN "u16" ELSE "i32"]
Nint(v) == [NoneItem EXCEPT !.t = "nint", !.v = v, !.w = "i32"]
IntItem(v) == IF v >= 0 THEN Uint(v) ELSE Nint(v)
ItemOf(v) ==
  CASE v.k = "bytes" -> [NoneItem EXCEPT !.t = "bstr", !.n = v.n, !.b0 = v.b0, !.h = v.h]
    [] v.k = "int"   -> IntItem(v.v)
    [] v.k = "text"  -> [NoneItem EXCEPT !.t = "tstr", !.n = v.n, !.nr = v.n, !.s = v.s, !.h = v.h]
    [] v.k = "str"   -> [NoneItem EXCEPT !.t = "tstr", !.n = v.n, !.nr = v.n, !.b0 = v.b0, !.h = v.h]
    [] v.k = "prof"  -> [NoneItem EXCEPT !.t = "tstr", !.str = v.s[1]]
    [] v.k = "nonces"-> IF v.n = 1 THEN [NoneItem EXCEPT !.t = "bstr", !.n = v.s[1].n, !.b0 = v.s[1].b0, !.h = v.s[1].h]
                        ELSE [NoneItem EXCEPT !.t = "arr", !.n = v.n,
                                              !.items = [i \in 1..v.n |-> [NoneItem EXCEPT !.t = "bstr", !.n = v.s[i].n, !.b0 = v.s[i].b0, !.h = v.s[i].h]]]
Pair(kv, it) == [k |-> IntItem(kv), it |-> it]
CompItem(c) == LET fs == SelectSeq(CompOrder, LAMBDA f : Present(c[f])) IN
               [NoneItem EXCEPT !.t = "map", !.n = Len(fs), !.pairs = [i \in 1..Len(fs) |-> Pair(CompKeys[fs[i]], ItemOf(c[fs[i]]))]]
SwItem(l) == [NoneItem EXCEPT !.t = "arr", !.n = Len(l), !.items = [i \in 1..Len(l) |-> CompItem(l[i])]]
EncodeTok(ob) == LET cs == SelectSeq(EmitOrder(ob.p), LAMBDA c : c \in Emitted(ob)) IN
                 [NoneItem EXCEPT !.t = "map", !.n = Len(cs),
                                  !.pairs = [i \in 1..Len(cs) |-> Pair(KeyOf(ob.p, cs[i]), IF cs[i] = "sw" THEN SwItem(ob.sw.l) ELSE ItemOf(ob[cs[i]]))]]
\* text values as the decoder rebuilds them (shape / class live in different item fields)
\* ---------- the class product ----------
TextV(s) == [Text(s) EXCEPT !.h = "t" \o ToString(Len(s))]
StrV(n) == [Str(n, 0) EXCEPT !.h = "s" \o ToString(n)]
C2(mv, sid) == Comp(Abs, mv, Abs, sid, Abs)
DomFull(p, c) ==
  CASE c = "profile"   -> IF p = "P1" THEN {Abs, Prof(P1Name), Prof("http://UNKNOWN")} ELSE {Prof(P2Name)}
    [] c = "clientId"  -> {Abs, IntV(-1), IntV(2147483647)}
    [] c = "lifecycle" -> {Abs, IntV(12288), IntV(256)}
    [] c = "implId"    -> {Abs, H(32), H(31)}
    [] c = "bootSeed"  -> {Abs, H(32), H(8), H(33)}
    [] c = "certRef"   -> {Abs, TextV(EAN13), TextV(EAN13p5), TextV(Rep(12, "D"))}
    [] c = "sw"        -> {SwV(<<>>), SwV(<<C2(H(32), H(64))>>), SwV(<<C2(H(31), H(32))>>), SwV(<<C2(H(32), H(32)), Comp(StrV(2), H(48), Abs, H(32), StrV(0))>>)}
    [] c = "noSw"      -> IF p = "P1" THEN {Abs, IntV(1)} ELSE {Abs}
    [] c = "nonce"     -> IF p = "P1" THEN {Abs, H(32), H(65)} ELSE {Abs, Nonces(<<H(48)>>), Nonces(<<H(8)>>), Nonces(<<H(32), H(32)>>)}
    [] c = "instId"    -> {Abs, [Bytes(33, 1) EXCEPT !.h = "i1"], [Bytes(33, 0) EXCEPT !.h = "i0"]}
    [] c = "vsi"       -> {Abs, StrV(0), StrV(3)}
\* the small instance keeps the absent class, one valid and one invalid class of every claim
Pick2(S) == LET a == CHOOSE x \in S : TRUE IN {a} \cup (IF S = {a} THEN {} ELSE {CHOOSE y \in S \ {a} : TRUE})
DomSmall(p, c) ==
  CASE c = "implId" -> {H(32), H(31)} [] c = "bootSeed" -> {Abs, H(32)} [] c = "clientId" -> {IntV(-1)}
    [] c = "lifecycle" -> {IntV(12288), IntV(256)} [] c = "certRef" -> {Abs, TextV(EAN13)} [] c = "vsi" -> {Abs, StrV(0)}
    [] c = "instId" -> {[Bytes(33, 1) EXCEPT !.h = "i1"]}
    [] OTHER -> DomFull(p, c)
Dom(p, c) == IF Full THEN DomFull(p, c) ELSE DomSmall(p, c)
Order == <<"profile","clientId","lifecycle","implId","bootSeed","certRef","sw","noSw","nonce","instId","vsi">>
WInit == \E p \in {"P1", "P2"} : o = Blank(p, Canon(p)) /\ k = 1
WNext == /\ k <= Len(Order)
         /\ \E v \in Dom(o.p, Order[k]) : o' = [o EXCEPT ![Order[k]] = v]
         /\ k' = k + 1
WSpec == WInit /\ [][WNext]_wvars
Complete == k = Len(Order) + 1
\* what decoding the spec's own encoding gives back (a valid profile-2 one-element nonce list is a bare byte string)
Back(ob) == DecodeTok({}, ob.p, ob.canon, EncodeTok(ob))
DecodeEncodeId == Complete => Back(o).r = "ok" /\ Back(o).o = o
EncodeStable == Complete => EncodeTok(Back(o).o) = EncodeTok(o)
ValidWireOK == Complete /\ Valid(o) => WireFormatOK(o, EncodeTok(o)) /\ TokVerdict({}, o.p, o.canon, EncodeTok(o)) = "accept"
InvalidRejected == Complete /\ ~Valid(o) => TokVerdict({}, o.p, o.canon, EncodeTok(o)) = "reject"
\* tolerating the named deviations never turns an accepted token into a rejected one
DeviationsOnlyWiden == Complete => (TokVerdict({}, o.p, o.canon, EncodeTok(o)) = "accept"
                                     => TokVerdict({"D9", "D10", "D11"}, o.p, o.canon, EncodeTok(o)) = "accept")
====
