---- MODULE MC_Wire ----
(***************************************************************************)
(* Bounded instance of PsaWire: the claims-set is built claim by claim     *)
(* over a product of value classes (one action per claim, so that TLC      *)
(* explores the product in parallel), then encoded by the specification's  *)
(* own encoder and decoded again.  Checks, for every object of the         *)
(* product, valid or not:                                                  *)
(*   DecodeEncodeId  Decode(Encode(o)) = o                                 *)
(*   EncodeStable    Encode(Decode(Encode(o))) = Encode(o)                 *)
(*   ValidWireOK     valid => the encoding is the profile's wire format    *)
(*                   and decode-and-validate accepts it                    *)
(*   InvalidRejected invalid => decode-and-validate rejects it             *)
(* and that the named deviations only ever enlarge what is accepted.       *)
(***************************************************************************)
EXTENDS PsaWire
CONSTANT Full      \* TRUE: the full class product (373 248 objects); FALSE: two or three classes per claim
VARIABLES o, k
wvars == <<o, k>>
H(n) == [Bytes(n, 2) EXCEPT !.h = "h" \o ToString(n)]           \* content identity = the length class
\* text values as the decoder rebuilds them (shape / class live in different item fields)
\* ---------- the class product ----------
TextV(s) == [Text(s) EXCEPT !.h = "t" \o ToString(Len(s))]
StrV(n) == [Str(n, 0) EXCEPT !.h = "s" \o ToString(n)]
C2(mv, sid) == Comp(Abs, mv, Abs, sid, Abs)
DomFull(p, c) ==
  CASE c = "profile"   -> IF p = "P1" THEN {Abs, Prof(P1Name), Prof("http://UNKNOWN")} ELSE {Prof(P2Name)}
    [] c = "clientId"  -> {Abs, IntV(-1), IntV(2147483647)}
    [] c = "lifecycle" -> {Abs, IntV(12288), IntV(256)}
    [] c = "implId"    -> {Abs, H(32), H(31)}
    [] c = "bootSeed"  -> {Abs, H(32), H(8), H(33)}
    [] c = "certRef"   -> {Abs, TextV(EAN13), TextV(EAN13p5), TextV(Rep(12, "D"))}
    [] c = "sw"        -> {SwV(<<>>), SwV(<<C2(H(32), H(64))>>), SwV(<<C2(H(31), H(32))>>), SwV(<<C2(H(32), H(32)), Comp(StrV(2), H(48), Abs, H(32), StrV(0))>>)}
    [] c = "noSw"      -> IF p = "P1" THEN {Abs, IntV(1)} ELSE {Abs}
    [] c = "nonce"     -> IF p = "P1" THEN {Abs, H(32), H(65)} ELSE {Abs, Nonces(<<H(48)>>), Nonces(<<H(8)>>), Nonces(<<H(32), H(32)>>)}
    [] c = "instId"    -> {Abs, [Bytes(33, 1) EXCEPT !.h = "i1"], [Bytes(33, 0) EXCEPT !.h = "i0"]}
    [] c = "vsi"       -> {Abs, StrV(0), StrV(3)}
\* the small instance keeps the absent class, one valid and one invalid class of every claim
Pick2(S) == LET a == CHOOSE x \in S : TRUE IN {a} \cup (IF S = {a} THEN {} ELSE {CHOOSE y \in S \ {a} : TRUE})
DomSmall(p, c) ==
  CASE c = "implId" -> {H(32), H(31)} [] c = "bootSeed" -> {Abs, H(32)} [] c = "clientId" -> {IntV(-1)}
    [] c = "lifecycle" -> {IntV(12288), IntV(256)} [] c = "certRef" -> {Abs, TextV(EAN13)} [] c = "vsi" -> {Abs, StrV(0)}
    [] c = "instId" -> {[Bytes(33, 1) EXCEPT !.h = "i1"]}
    [] OTHER -> DomFull(p, c)
Dom(p, c) == IF Full THEN DomFull(p, c) ELSE DomSmall(p, c)
Order == <<"profile","clientId","lifecycle","implId","bootSeed","certRef","sw","noSw","nonce","instId","vsi">>
WInit == \E p \in {"P1", "P2"} : o = Blank(p, Canon(p)) /\ k = 1
WNext == /\ k <= Len(Order)
         /\ \E v \in Dom(o.p, Order[k]) : o' = [o EXCEPT ![Order[k]] = v]
         /\ k' = k + 1
WSpec == WInit /\ [][WNext]_wvars
Complete == k = Len(Order) + 1
\* what decoding the spec's own encoding gives back (a valid profile-2 one-element nonce list is a bare byte string)
Back(ob) == DecodeTok({}, ob.p, ob.canon, EncodeTok(ob))
DecodeEncodeId == Complete => Back(o).r = "ok" /\ Back(o).o = o
EncodeStable == Complete => EncodeTok(Back(o).o) = EncodeTok(o)
ValidWireOK == Complete /\ Valid(o) => WireFormatOK(o, EncodeTok(o)) /\ TokVerdict({}, o.p, o.canon, EncodeTok(o)) = "accept"
InvalidRejected == Complete /\ ~Valid(o) => TokVerdict({}, o.p, o.canon, EncodeTok(o)) = "reject"
\* tolerating the named deviations never turns an accepted token into a rejected one
DeviationsOnlyWiden == Complete => (TokVerdict({}, o.p, o.canon, EncodeTok(o)) = "accept"
                                     => TokVerdict({"D9", "D10", "D11"}, o.p, o.canon, EncodeTok(o)) = "accept")
====
