---- MODULE PsaJson ----
(***************************************************************************)
(* The JSON form read back: decoding a JSON document into a claims-set of  *)
(* profile p (the inverse of PsaWire!JsonFormatOKx), and the accept /      *)
(* reject verdict of decode-and-validate on JSON.  No listed property      *)
(* quantifies over arbitrary JSON documents (C12 speaks about what the     *)
(* library emits, C07 about dispatch); this module extends the model to    *)
(* the rest of the JSON decoder's behaviour so that the documents the      *)
(* harness feeds it are judged value for value, like CBOR tokens are.      *)
(*                                                                         *)
(* A document is what a generic JSON parser reports (see PsaWire): every   *)
(* member carries  t  "string" "number" "bignumber" (not an integer of 32  *)
(* bits: fractions, exponents, larger values) "array" "object" "null"      *)
(* "bool" "negzero" (the literal -0), and for strings the three readings a claim may take:            *)
(*   vb  the base64-decoded bytes as a "bytes" value (Abs: not base64)     *)
(*   vt  the text as a certification-reference shape ("text")              *)
(*   vs  the text as a free string ("str")                                 *)
(* JSON conventions of the implementation's decoder are part of the model: *)
(* null stands for "member absent"; unknown members are ignored; a number  *)
(* must be an integer literal within the claim's Go type.                  *)
(***************************************************************************)
EXTENDS PsaWire

NoMember == [name |-> "", t |-> "absent", v |-> 0, b64 |-> FALSE, hb |-> "", hs |-> "", n |-> 0, str |-> "",
             arr |-> <<>>, obj |-> <<>>, vb |-> Abs, vt |-> Abs, vs |-> Abs]
JMem(d, nm) == IF nm \in Members(d) THEN Member(d, nm) ELSE NoMember
Missing(m) == m.t \in {"absent", "null"}

DecJBytes(m) == CASE Missing(m) -> Val(Abs)
                  [] m.t = "string" -> IF m.b64 THEN Val(m.vb) ELSE Err
                  [] OTHER -> Err
DecJInt(m, lo, hi) == CASE Missing(m) -> Val(Abs)
                        [] m.t = "number" -> IF m.v >= lo /\ m.v <= hi THEN Val(IntV(m.v)) ELSE Err
                        [] m.t = "negzero" -> IF lo < 0 THEN Val(IntV(0)) ELSE Err      \* the literal -0: no unsigned number
                        [] OTHER -> Err                    \* fractions, exponents, strings ... are never coerced
\* the no-measurements flag is an unsigned machine word: integer literals beyond 32 bits are left open
DecJFlag(m) == CASE Missing(m) -> Val(Abs)
                 [] m.t = "number" -> IF m.v >= 0 THEN Val(IntV(m.v)) ELSE Err
                 [] m.t = "bignumber" -> Open
                 [] OTHER -> Err
DecJText(m, kind) == CASE Missing(m) -> Val(Abs)
                       [] m.t = "string" -> IF kind = "text" THEN Val(m.vt) ELSE Val(m.vs)
                       [] OTHER -> Err
\* the profile member: dispatch has already established that it names the implementation or is missing;
\* anything else is left open here
DecJProfile(p, canon, m) == CASE Missing(m) -> Val(Abs)
                              [] m.t = "string" /\ m.str = canon -> Val(Prof(canon))
                              [] OTHER -> Open
\* profile 2 carries an EAT nonce: one base64 string, or an array of them (a one-element array is left open, as in CBOR)
DecJNonces(m) ==
  CASE Missing(m) -> Val(Abs)
    [] m.t = "string" -> IF m.b64 THEN Val(Nonces(<<m.vb>>)) ELSE Err
    [] m.t = "array" -> IF \E i \in 1..Len(m.arr) : m.arr[i].t # "string" \/ ~m.arr[i].b64 THEN (IF \E i \in 1..Len(m.arr) : m.arr[i].t = "null" THEN Open ELSE Err)
                        ELSE IF Len(m.arr) = 1 THEN Open
                        ELSE Val(Nonces([i \in 1..Len(m.arr) |-> m.arr[i].vb]))
    [] OTHER -> Err
DecJCompField(f, m) == IF f \in {"mv", "sid"} THEN DecJBytes(m) ELSE DecJText(m, "str")
DecJComp(m) ==
  IF m.t # "object" THEN (IF m.t = "null" THEN Open ELSE Err)          \* a null element: decodes to "no component" (open here, rejected by validation)
  ELSE LET d == [f \in CompFields |-> DecJCompField(f, JMem(m, CompJsonNames[f]))] IN
       IF \E f \in CompFields : d[f].r = "err" THEN Err
       ELSE IF \E f \in CompFields : d[f].r = "open" THEN Open
       ELSE Val(Comp(d["mt"].v, d["mv"].v, d["ver"].v, d["sid"].v, d["desc"].v))
DecJSw(m) ==
  CASE Missing(m) -> SwR("val", <<>>)
    [] m.t = "array" -> LET ds == [i \in 1..Len(m.arr) |-> DecJComp(m.arr[i])] IN
                        IF \E i \in 1..Len(ds) : ds[i].r = "err" THEN SwR("err", <<>>)
                        ELSE IF \E i \in 1..Len(ds) : ds[i].r = "open" THEN SwR("open", <<>>)
                        ELSE SwR("val", [i \in 1..Len(ds) |-> ds[i].v])
    [] OTHER -> SwR("err", <<>>)
DecJClaim(p, canon, c, m) ==
  CASE c \in {"implId", "bootSeed"} -> DecJBytes(m)
    [] c = "instId"    -> DecJBytes(m)
    [] c = "nonce"     -> IF p = "P1" THEN DecJBytes(m) ELSE DecJNonces(m)
    [] c = "clientId"  -> DecJInt(m, -2147483647 - 1, 2147483647)
    [] c = "lifecycle" -> DecJInt(m, 0, 65535)
    [] c = "noSw"      -> LET d == DecJFlag(m) IN IF d.r = "val" /\ Present(d.v) /\ d.v.v # 1 THEN Open ELSE d   \* a flag other than 1: open
    [] c = "certRef"   -> DecJText(m, "text")
    [] c = "vsi"       -> DecJText(m, "str")
    [] c = "profile"   -> DecJProfile(p, canon, m)
    [] c = "sw"        -> DecJSw(m)

\* a whole document into a claims-set of profile p declaring canon:  r: "ok" | "err" | "open"
DecodeDoc(p, canon, d) ==
  IF d.t # "object" THEN [r |-> "err", o |-> Blank(p, canon)]
  ELSE LET x == [c \in WireClaims(p) |-> DecJClaim(p, canon, c, JMem(d, JsonNames(p)[c]))] IN
       IF \E c \in WireClaims(p) : x[c].r = "err" THEN [r |-> "err", o |-> Blank(p, canon)]
       ELSE IF \E c \in WireClaims(p) : x[c].r = "open" THEN [r |-> "open", o |-> Blank(p, canon)]
       ELSE [r |-> "ok", o |-> [c \in DOMAIN Blank(p, canon) |->
                                  IF c \in WireClaims(p) THEN x[c].v ELSE Blank(p, canon)[c]]]
JsonVerdict(p, canon, d) == LET x == DecodeDoc(p, canon, d) IN
                            IF x.r = "err" THEN "reject" ELSE IF x.r = "open" THEN "open"
                            ELSE IF Valid(x.o) THEN "accept" ELSE "reject"
====
