SPECIFICATION WSpec
CONSTANT Full = TRUE
INVARIANTS JsonFormatHolds JDecodeEncodeId JVerdictIsValid CborJsonAgree
CHECK_DEADLOCK FALSE
