SPECIFICATION TSpec
CONSTANTS
  Keys = {"k1", "k2"}
  Algs = {"ES256", "ES384", "ES512", "EdDSA", "PS256", "PS384", "PS512"}
  ClaimIds = {"cA", "cB", "cC", "cBad"}
  InvalidIds = {"cBad"}
INVARIANT Verdict
CHECK_DEADLOCK FALSE
