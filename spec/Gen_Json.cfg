INIT GInit
NEXT GNext
CHECK_DEADLOCK FALSE
