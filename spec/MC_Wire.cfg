SPECIFICATION WSpec
CONSTANT Full = TRUE
INVARIANTS DecodeEncodeId EncodeStable ValidWireOK InvalidRejected DeviationsOnlyWiden
CHECK_DEADLOCK FALSE
