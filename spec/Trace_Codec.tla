---- MODULE Trace_Codec ----
(***************************************************************************)
(* Judge for package encoding.                                             *)
(*  Reader  one input through PopulateStructFromCBOR; the outcome must be  *)
(*          the reader machine's (item decisions taken from the CBOR       *)
(*          library as an oracle), never a panic, within the memory bound  *)
(*  Shape   one struct value through Serialize / Populate in CBOR and JSON *)
(*  Bytes   one byte string through a decoding entry point (C05 / C06):    *)
(*          outcome in {ok, err}, follow-up calls too, resources bounded   *)
(***************************************************************************)
EXTENDS PsaCodec, TraceLib
VARIABLES l, bad
tvars == <<l, bad>>
\* C06: 1 MiB + 1 KiB per input byte; 5 s
MemOK(kb, n) == kb <= 1024 + n
ReaderOK(e) ==
  LET s == e.input
      r == ReaderOutcome(s, [key |-> e.key, val |-> e.val], FALSE)
  IN /\ e.out \in {"ok", "err"}                                   \* never a panic, an abort or a hang
     /\ e.out = r.out
     /\ (e.out = "ok" => SeqToSet(e.keys) = {k \in SeqToSet(r.keys) : k \in 0..23})
     /\ MemOK(e.allocKB, Len(s))
     /\ r.reserved <= ReservedBound(s)
\* C15: one struct value through the embedding-aware serialisers and back
ShapeOK(e) ==
  LET x == Serialize(e.shape) IN
  /\ ~e.panicked
  /\ e.ser.ok = x.ok
  /\ (x.ok => /\ e.ser.keys = x.keys                              \* outer fields, then embedded, in order; omitempty / "-" honoured
              /\ (e.fmt = "cbor" => e.ser.hdr = x.hdr /\ e.ser.b0 = x.b0 /\ e.ser.n = Len(x.keys))   \* a correct length header
              /\ e.ser.stable                                     \* same bytes when serialised again
              /\ e.pop.ok /\ e.pop.equal                          \* populating a fresh struct reproduces the value
              /\ (e.plain.applicable => e.plain.sameMap)          \* without embedding: same map as the plain marshaller
              /\ \A i \in 1..Len(e.missing) :                     \* dropping one key: an error iff it is mandatory
                   e.missing[i].ok = PopulateOK(e.shape, SeqToSet(x.keys) \ {e.missing[i].key})
              /\ (e.fmt = "cbor" /\ Len(x.keys) > 0 => ~e.dupOK)) \* a duplicate key in CBOR input is an error
\* C05 / C06 on arbitrary bytes
BytesOK(e) ==
  /\ e.out \in {"ok", "err"}
  /\ \A i \in 1..Len(e.follow) : e.follow[i] \in {"ok", "err"}     \* validate, getters, re-encode, verify: no panic either
  /\ MemOK(e.allocKB, e.len) /\ e.ms <= 5000
\* C15: the length header for any number of entries (synthetic structs of n keys)
HeaderOK(e) == /\ ~e.panicked
               /\ e.count = e.n /\ e.hdr = HeaderBytes(e.n) /\ e.b0 = HeaderByte0(e.n)
               /\ e.popOK /\ e.equal /\ e.jsonOK
\* discovery of the profile field's JSON member name (what profile registration relies on)
ProfileTagOK(e) == LET r == ProfileTag(e.shape) IN
  /\ ~e.panicked /\ e.ok = r.ok /\ (r.ok => e.tag = r.tag)
Match(e) == CASE e.op = "ProfileTag" -> ProfileTagOK(e) [] e.op = "Header" -> HeaderOK(e) [] e.op = "Reader" -> ReaderOK(e) [] e.op = "Shape" -> ShapeOK(e) [] e.op = "Bytes" -> BytesOK(e) [] OTHER -> FALSE
TInit == l = 1 /\ bad = <<>>
TNext == l <= Len(Trace) /\ l' = l + 1 /\ bad' = IF Match(Trace[l]) THEN bad ELSE Append(bad, l)
TSpec == TInit /\ [][TNext]_tvars
Cnt(P(_)) == Cardinality({i \in 1..Len(Trace) : P(Trace[i])})
IsOK(e) == e.op \in {"Reader", "Bytes"} /\ e.out = "ok"
IsErr(e) == e.op \in {"Reader", "Bytes"} /\ e.out = "err"
Verdict == l = Len(Trace) + 1 => WriteVerdict([n |-> Len(Trace), bad |-> bad, accepted |-> Cnt(IsOK), rejected |-> Cnt(IsErr)])
====
