SPECIFICATION CSpec
CONSTANTS
  N = 64
  Batches = 8
INVARIANTS Emit
CHECK_DEADLOCK FALSE
