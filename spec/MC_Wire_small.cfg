SPECIFICATION WSpec
CONSTANT Full = FALSE
INVARIANTS DecodeEncodeId EncodeStable ValidWireOK InvalidRejected DeviationsOnlyWiden
CHECK_DEADLOCK FALSE
