SPECIFICATION JSpec
CONSTANTS
  KeyPool = {"a", "b", "c"}
  MaxKeys = 5
  AsCoded = TRUE
INVARIANTS NoPanic DeletedExactly
CHECK_DEADLOCK FALSE
