SPECIFICATION ESpecAll
CONSTANTS
  Keys = {"k1", "k2"}
  Algs = {"ES256", "EdDSA"}
  ClaimIds = {"cA", "cB", "cBad"}
  InvalidIds = {"cBad"}
INVARIANTS Binding NoForgery FailedOpNoToken FailedSignThenVerifyFails GateNeverPassesInvalid TokenIsEnvelope GoodSignAlwaysSucceeds TwoSignsTwoTokens
PROPERTIES GoodSignVerifies
VIEW EView
CHECK_DEADLOCK FALSE
