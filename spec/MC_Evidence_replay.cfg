SPECIFICATION ESpecAll
CONSTANTS
  Keys = {"k1", "k2"}
  Algs = {"ES256", "EdDSA"}
  ClaimIds = {"cA", "cB", "cC", "cBad"}
  InvalidIds = {"cBad"}
INVARIANTS Binding NoForgery GoodSignAlwaysSucceeds TwoSignsTwoTokens
PROPERTIES GoodSignVerifies EveryStepPost
VIEW EView
CHECK_DEADLOCK FALSE
