SPECIFICATION TSpec
INVARIANT Verdict
CHECK_DEADLOCK FALSE
