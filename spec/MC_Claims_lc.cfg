SPECIFICATION Spec
CONSTANTS
  Profiles = {"P1", "P2"}
  DomBytes = {32}
  DomLC = {0, 255, 256, 4095, 4096, 4351, 4352, 8191, 8192, 8447, 8448, 12288, 12543, 12544, 16384, 16639, 16640, 20480, 20735, 20736, 24576, 24831, 24832, 28672, 32768, 61440, 65535}
  DomCert <- CertDom
  DomSw <- SwDomSmall
  MaxComps = 1
  DomInvalid <- NoInvalid
INVARIANTS MandatorySetImpliesValid ValidIffGetters ValidThenMandatoryGettersOK
PROPERTIES SetterAgrees SetterStores AtomicOnFailure OnlyTargetChanges ReadOpsPure ErrorsClassifiedStep
VIEW View
CHECK_DEADLOCK FALSE
