---- MODULE MC_Claims ----
\* Bounded instance of PsaClaims: setter / getter / validate histories of unbounded length over
\* a finite value domain (the reachable set is finite, VIEW = the object).
EXTENDS PsaClaimsSM
CertDom == {EAN13, EAN13p5, Rep(12, "D"), <<"X">> \o EAN13p5, <<>>}
H(n) == Bytes(n, 2)
C2(mv, sid) == Comp(Abs, mv, Abs, sid, Abs)
SwDom == {<<>>, <<C2(H(32), H(64))>>, <<C2(H(31), H(32))>>, <<C2(H(32), H(32)), C2(H(48), Abs)>>, <<Comp(Str(2,0), H(48), Str(0,0), H(32), Abs)>>}
\* claims-sets that only decoding can produce
Bad(p) == LET f == Fresh(p, Canon(p)) IN
  { [f EXCEPT !.implId = H(31)], [f EXCEPT !.profile = Prof("http://UNKNOWN")], [f EXCEPT !.profile = Abs, !.lifecycle = IntV(65535)],
    [f EXCEPT !.sw = SwV(<<NullComp>>)], [f EXCEPT !.sw = SwV(<<C2(H(32), H(32))>>), !.noSw = IntV(1)],
    [f EXCEPT !.nonce = IF p = "P1" THEN H(8) ELSE Nonces(<<H(32), H(32)>>)], [f EXCEPT !.vsi = Str(0, 0), !.certRef = Text(EAN13)] }
InvalidDom == Bad("P1") \cup Bad("P2")
NoInvalid == {}
SwDomSmall == {<<C2(H(32), H(64))>>}
====
