---- MODULE Gen_Claims ----
(***************************************************************************)
(* gen step for the claims family: TLC evaluates the value-class tables of *)
(* the specification and writes them for the harness to enumerate:         *)
(*  - Classes(p, c): per claim the four classes of C01 (absent, boundary-  *)
(*    valid, just-outside-valid, wrong-shape), each a set of alternatives; *)
(*  - the complete single-edit neighbourhood of the two reference shapes;  *)
(*  - component lists of length 0..2 over every field combination, and     *)
(*    every single deviation at every position of lists of length 3 and 4. *)
(* The expected verdicts are NOT exported: the judge recomputes them from  *)
(* the projection of the real objects.                                     *)
(***************************************************************************)
EXTENDS PsaClaims, Json, IOUtils
H(n) == Bytes(n, 2)
HS(ns) == {H(n) : n \in ns}
LCEnds == UNION {{s * 4096, s * 4096 + 255} : s \in 0..6}
LCOut  == {256, 4095, 4352, 8191, 8448, 12287, 12544, 16383, 16640, 20479, 20736, 24575, 24832}
MinI32 == -2147483647 - 1
X2Name == "http://example.com/x2"
Classes(p, c) ==
  \* (the last class also holds lengths that equal a valid one modulo 2^8 / 2^16: 288 = 256 + 32, 65568 = 65536 + 32 ...)
  CASE c = "implId"   -> <<{Abs}, HS({32}), HS({31, 33}), HS({0, 1, 64, 288, 65568})>>
    [] c = "instId"   -> <<{Abs}, {Bytes(33, 1)}, {Bytes(32, 1), Bytes(34, 1)}, {Bytes(33, 0), Bytes(33, 2), Bytes(0, 0), Bytes(1, 1), Bytes(289, 1)}>>
    [] c = "bootSeed" -> IF p = "P1" THEN <<{Abs}, HS({32}), HS({31, 33}), HS({0, 8, 64, 288, 65568})>>
                                     ELSE <<{Abs}, HS({8, 9, 20, 31, 32}), HS({7, 33}), HS({0, 1, 64, 264, 288, 65544})>>
    [] c = "nonce"    -> IF p = "P1" THEN <<{Abs}, HS({32, 48, 64}), HS({31, 33, 47, 49, 63, 65}), HS({0, 8, 80, 288, 304, 320})>>
                         ELSE <<{Abs}, {Nonces(<<H(n)>>) : n \in {32, 48, 64}},
                                {Nonces(<<H(n)>>) : n \in {31, 33, 47, 49, 63, 65}},
                                {Nonces(<<>>), Nonces(<<H(32), H(32)>>), Nonces(<<H(8)>>), Nonces(<<H(32), H(48), H(64)>>)}>>
    [] c = "lifecycle"-> <<{Abs}, {IntV(v) : v \in LCEnds}, {IntV(v) : v \in LCOut}, {IntV(v) : v \in {28672, 32768, 61440, 65535}}>>
    [] c = "clientId" -> <<{Abs}, {IntV(0), IntV(1)}, {IntV(MinI32), IntV(2147483647)}, {IntV(-1)}>>      \* every int32 is valid
    [] c = "certRef"  -> <<{Abs}, IF p = "P1" THEN {Text(EAN13), Text(EAN13p5)} ELSE {Text(EAN13p5)},
                           {Text(s) : s \in {Rep(12, "D"), Rep(14, "D"), EAN13 \o <<"H">>, Rep(13, "D") \o <<"H">> \o Rep(4, "D"),
                                              Rep(13, "D") \o <<"H">> \o Rep(6, "D"), Rep(13, "D") \o <<"D">> \o Rep(5, "D"),
                                              EAN13p5 \o <<"X">>, <<"X">> \o EAN13p5, EAN13 \o <<"X">>}}
                              \cup (IF p = "P2" THEN {Text(EAN13)} ELSE {}),
                           {Text(<<>>), Text(Rep(13, "X")), Text(Rep(19, "H")), Text(<<"X">>)}>>
    [] c = "vsi"      -> <<{Abs}, {Str(1, 0), Str(46, 0)}, {Str(0, 0)}, {Str(6, 1), Str(6, 2)}>>            \* any non-empty text is valid
    [] c = "profile"  -> <<{Abs}, {Prof(Canon(p))}, {Prof(IF p = "P1" THEN P2Name ELSE X2Name)},
                           {Prof("http://UNKNOWN"), Prof(IF p = "P1" THEN "" ELSE "1.2.3")}>>
    [] c = "noSw"     -> IF p = "P1" THEN <<{Abs}, {IntV(1), IntV(0), IntV(2)}, {}, {}>> ELSE <<{Abs}, {}, {}, {}>>   \* presence is what counts, whatever the value
    [] c = "sw"       -> LET ok == Comp(Abs, H(32), Abs, H(32), Abs) IN
                         <<{SwV(<<>>)},
                           {SwV(<<ok>>), SwV(<<Comp(Str(2, 0), H(48), Str(5, 0), H(64), Str(7, 0))>>), SwV(<<ok, Comp(Abs, H(64), Abs, H(48), Abs)>>)},
                           {SwV(<<Comp(Abs, H(31), Abs, H(32), Abs)>>), SwV(<<Comp(Abs, H(32), Abs, H(65), Abs)>>), SwV(<<ok, Comp(Abs, H(33), Abs, H(32), Abs)>>)},
                           {SwV(<<Comp(Abs, Abs, Abs, H(32), Abs)>>), SwV(<<Comp(Abs, H(32), Abs, Abs, Abs)>>), SwV(<<ok, Comp(Str(1, 0), Abs, Abs, Abs, Abs)>>), SwV(<<Comp(Abs, H(0), Abs, H(0), Abs)>>)}>>
ClaimOrder == <<"profile", "clientId", "lifecycle", "implId", "bootSeed", "certRef", "sw", "noSw", "nonce", "instId", "vsi">>
\* component field alternatives: each field independently absent / valid / invalid
HashAlt == {Abs, H(32), H(48), H(31), H(65), H(288)}
TextAlt == {Abs, Str(3, 0)}
CompAlt == {Comp(mt, mv, ver, sid, desc) : mt \in TextAlt, mv \in HashAlt, ver \in TextAlt, sid \in HashAlt, desc \in TextAlt}
CompAltSmall == {Comp(mt, mv, Abs, sid, Abs) : mt \in TextAlt, mv \in {Abs, H(32), H(31)}, sid \in {Abs, H(64), H(65)}}
OkComp == Comp(Abs, H(32), Abs, H(64), Abs)
SwLists == {<<>>} \cup {<<c>> : c \in CompAlt} \cup {<<a, b>> : a \in CompAltSmall, b \in CompAltSmall}
           \cup {[i \in 1..n |-> IF i = k THEN c ELSE OkComp] : n \in 3..4, k \in 1..4, c \in CompAltSmall}
           \cup {<<NullComp>>, <<OkComp, NullComp>>, <<NullComp, OkComp, OkComp>>}        \* a null element (decodable: [null])
Table == [p \in {"P1", "P2"} |-> [c \in Claims |-> Classes(p, c)]]
Doc == [classes |-> Table, order |-> ClaimOrder, certShapes |-> CertShapes, swLists |-> SwLists]
\* sanity of the class tables against the rules: class 2 values are accepted, class 3 and 4 rejected
\* (except where the profile has no invalid value of the claim's type)
ClassesSane == \A p \in {"P1", "P2"} : \A c \in {"implId", "instId", "bootSeed", "nonce", "lifecycle", "certRef"} :
     /\ \A v \in Classes(p, c)[2] : ClaimOK([Blank(p, Canon(p)) EXCEPT ![c] = v], c)
     /\ \A v \in Classes(p, c)[3] \cup Classes(p, c)[4] : ~ClaimOK([Blank(p, Canon(p)) EXCEPT ![c] = v], c)
ASSUME ClassesSane
ASSUME JsonSerialize(IOEnv.OUT, Doc)
VARIABLE dummy
GInit == dummy = 0
GNext == UNCHANGED dummy
====
