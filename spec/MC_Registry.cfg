SPECIFICATION RSpec
CONSTANTS
  Names = {"N1", "N2"}
  Kinds <- MCKinds
  MaxInst = 2
  MaxReg = 5
  Docs <- MCDocs
  Toks <- MCToks
INVARIANTS FreshInstances ReportsDeclared DefaultIsP1
PROPERTIES AppendOnly FailedRegisterChangesNothing OnlyDeclaringDocsAffected OnlyDeclaringToksAffected OnlyNamedLookupAffected
VIEW RView
CHECK_DEADLOCK FALSE
