SPECIFICATION DSpec
CONSTANTS
  Names = {"N1", "N2"}
  Kinds <- MCKinds
  MaxInst = 2
  MaxReg = 5
  Docs <- MCDocs
  Toks <- MCToks
  AsCodedBeforeFix = FALSE
INVARIANTS OutcomeIsExpected
CHECK_DEADLOCK FALSE
