SPECIFICATION CSpec
CONSTANTS
  N = 16
  Batches = 6
INVARIANTS Emit
CHECK_DEADLOCK FALSE
