SPECIFICATION SimSpec
CONSTANTS
  Profiles = {"P1", "P2"}
  DomBytes = {}
  DomLC = {}
  DomCert = {}
  DomSw = {}
  DomInvalid = {}
  MaxComps = 4
  Depth = 40
INVARIANT Emit
CHECK_DEADLOCK FALSE
