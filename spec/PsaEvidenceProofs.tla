---- MODULE PsaEvidenceProofs ----
(***************************************************************************)
(* TLAPS proofs about PsaEvidence for ARBITRARY sets of keys, algorithms   *)
(* and claims-sets (TLC checks the same for small constants, Apalache for  *)
(* 3 x 7 x 4): the invariant  SigKnown /\ Binding  is inductive, hence      *)
(* holds in every reachable state of ESpec, and it implies NoForgery.      *)
(*   Binding    whenever verification succeeds the attached claims are nil *)
(*              or the decoding of the very payload the signature covers   *)
(*              (C19, C03 last sentence)                                   *)
(*   NoForgery  nothing verifies that an honest signer did not sign (C02)  *)
(* and the post-conditions of every step (Inv2: a failed operation returns *)
(* no token, after a failed signing attempt nothing verifies, validating   *)
(* gates never pass an invalid claims-set, a returned token is the         *)
(* envelope held), that a good signer always succeeds and that what it     *)
(* returns verifies under its key on the signing Evidence itself.          *)
(* Checked with  tlapm --threads 8 PsaEvidenceProofs.tla  (76 obligations, *)
(* SMT / Zenon / Isabelle / PTL back ends, ~10 s).  Non-vacuity: with      *)
(* UnmarshalF keeping the old claims after a failed claims decode the      *)
(* obligation of StepUnmarshal is not provable.                            *)
(***************************************************************************)
EXTENDS PsaEvidence, TLAPS

\* the distinguished strings are not members of the constant sets

ASSUME ConstAssump ==
  /\ "none" \notin Keys /\ "junk" \notin Keys
  /\ "nil" \notin ClaimIds /\ "garbage" \notin ClaimIds

Inv == SigKnown /\ Binding

THEOREM InitInv == EInit => Inv
<1> SUFFICES ASSUME EInit PROVE Inv OBVIOUS
<1>1. ev = [claims |-> "nil", msg |-> NoMsg, replaced |-> FALSE] BY DEF EInit, EvInit, EvState
<1>2. ev.msg.sig = NoSig /\ ev.msg.st = "none" BY <1>1 DEF NoMsg
<1>3. SigKnown BY <1>2 DEF SigKnown
<1>4. Binding BY <1>2 DEF Binding, VerifyOK, VerifyOKm
<1> QED BY <1>3, <1>4 DEF Inv

LEMMA StepSetClaims == ASSUME Inv, NEW c \in ClaimIds, SetClaims(c) PROVE Inv'
  BY DEF Inv, SigKnown, Binding, VerifyOK, VerifyOKm, SetClaims, Do, SetClaimsF, EvState, Res, RetRec

LEMMA StepAttach == ASSUME Inv, NEW c \in ClaimIds, Attach(c) PROVE Inv'
  BY DEF Inv, SigKnown, Binding, VerifyOK, VerifyOKm, Attach, Do, AttachF, EvState, Res, RetRec

LEMMA StepVerify == ASSUME Inv, NEW k \in Keys, Verify(k) PROVE Inv'
  BY DEF Inv, SigKnown, Binding, VerifyOK, VerifyOKm, Verify, Do, VerifyF, Res, RetRec

LEMMA StepUnmarshal == ASSUME Inv, NEW t \in TokenUniverse, Unmarshal(t) PROVE Inv'
  BY ConstAssump DEF Inv, SigKnown, Binding, VerifyOK, VerifyOKm, Unmarshal, Available, Do, UnmarshalF, EvState, Res, RetRec, FreshMsg, NoMsg, NoSig, Junk, Decodable, TokenUniverse

LEMMA StepSign == ASSUME Inv, NEW sg \in Signers, NEW v \in BOOLEAN, SignWith(sg, v) PROVE Inv'
  BY ConstAssump DEF Inv, SigKnown, Binding, VerifyOK, VerifyOKm, SignWith, Do, SignF, EvState, Res, RetRec, FreshMsg, NoMsg, NoSig, Junk, Sig, Signers, ValidClaims

THEOREM Inductive == Inv /\ [ENext]_evars => Inv'
<1> SUFFICES ASSUME Inv, [ENext]_evars PROVE Inv' OBVIOUS
<1>1. CASE UNCHANGED evars BY <1>1 DEF Inv, SigKnown, Binding, VerifyOK, VerifyOKm, evars
<1>2. CASE ENext BY <1>2, StepSetClaims, StepAttach, StepVerify, StepUnmarshal, StepSign DEF ENext
<1> QED BY <1>1, <1>2

THEOREM Safety == ESpec => []Inv
  BY InitInv, Inductive, PTL DEF ESpec

\* no forgery follows from the invariant alone
THEOREM InvImpliesNoForgery == Inv => NoForgery
  BY ConstAssump DEF Inv, SigKnown, NoForgery, VerifyOK, VerifyOKm, NoSig, Junk, Sig

(***************************************************************************)
(* The remaining design-level properties of MC_Evidence, each a            *)
(* post-condition of the step that sets eret: also for arbitrary constants *)
(***************************************************************************)
Inv2 == FailedOpNoToken /\ FailedSignThenVerifyFails /\ GateNeverPassesInvalid /\ TokenIsEnvelope

THEOREM InitInv2 == EInit => Inv2
  BY DEF EInit, Inv2, FailedOpNoToken, FailedSignThenVerifyFails, GateNeverPassesInvalid, TokenIsEnvelope, RetRec, Res

LEMMA Step2SetClaims == ASSUME NEW c \in ClaimIds, SetClaims(c) PROVE Inv2'
  BY DEF Inv2, FailedOpNoToken, FailedSignThenVerifyFails, GateNeverPassesInvalid, TokenIsEnvelope, SetClaims, Do, SetClaimsF, EvState, Res, RetRec, ValidClaims

LEMMA Step2Attach == ASSUME NEW c \in ClaimIds, Attach(c) PROVE Inv2'
  BY DEF Inv2, FailedOpNoToken, FailedSignThenVerifyFails, GateNeverPassesInvalid, TokenIsEnvelope, Attach, Do, AttachF, EvState, Res, RetRec

LEMMA Step2Verify == ASSUME NEW k \in Keys, Verify(k) PROVE Inv2'
  BY DEF Inv2, FailedOpNoToken, FailedSignThenVerifyFails, GateNeverPassesInvalid, TokenIsEnvelope, Verify, Do, VerifyF, Res, RetRec

LEMMA Step2Unmarshal == ASSUME NEW t \in TokenUniverse, Unmarshal(t) PROVE Inv2'
  BY DEF Inv2, FailedOpNoToken, FailedSignThenVerifyFails, GateNeverPassesInvalid, TokenIsEnvelope, Unmarshal, Do, UnmarshalF, EvState, Res, RetRec

LEMMA Step2Sign == ASSUME NEW sg \in Signers, NEW v \in BOOLEAN, SignWith(sg, v) PROVE Inv2'
  BY ConstAssump DEF Inv2, FailedOpNoToken, FailedSignThenVerifyFails, GateNeverPassesInvalid, TokenIsEnvelope, SignWith, Do, SignF, EvState,
     Res, RetRec, FreshMsg, NoMsg, NoSig, Junk, Sig, Signers, ValidClaims, VerifyOK, VerifyOKm

THEOREM Inductive2 == Inv2 /\ [ENext]_evars => Inv2'
<1> SUFFICES ASSUME Inv2, [ENext]_evars PROVE Inv2' OBVIOUS
<1>1. CASE UNCHANGED evars
  BY <1>1 DEF Inv2, FailedOpNoToken, FailedSignThenVerifyFails, GateNeverPassesInvalid, TokenIsEnvelope, VerifyOK, VerifyOKm, evars
<1>2. CASE ENext BY <1>2, Step2SetClaims, Step2Attach, Step2Verify, Step2Unmarshal, Step2Sign DEF ENext
<1> QED BY <1>1, <1>2

THEOREM Safety2 == ESpec => []Inv2
  BY InitInv2, Inductive2, PTL DEF ESpec

\* with claims attached a good signer always succeeds (a failed attempt does not wedge the Evidence)
THEOREM GoodSigner == GoodSignAlwaysSucceeds
  BY DEF GoodSignAlwaysSucceeds, SignF, Signers, EvState, Res, FreshMsg, NoMsg, Sig

\* what a good signer returns verifies under its key on the signing Evidence itself
THEOREM GoodSignVerifiesStep ==
  ASSUME ENext, eret'.op \in {"Sign", "ValidateAndSign"}, eret'.ok, eret'.tok.sig.k \in Keys
  PROVE VerifyOKm(ev'.msg, eret'.tok.sig.k)
<1>1. ASSUME NEW c \in ClaimIds, SetClaims(c) \/ Attach(c) PROVE FALSE
  BY <1>1 DEF SetClaims, Attach, Do, RetRec
<1>2. ASSUME NEW t \in TokenUniverse, Unmarshal(t) PROVE FALSE BY <1>2 DEF Unmarshal, Do, RetRec
<1>3. ASSUME NEW k \in Keys, Verify(k) PROVE FALSE BY <1>3 DEF Verify, Do, RetRec
<1>4. ASSUME NEW sg \in Signers, NEW v \in BOOLEAN, SignWith(sg, v) PROVE VerifyOKm(ev'.msg, eret'.tok.sig.k)
  BY <1>4, ConstAssump DEF SignWith, Do, SignF, EvState, Res, RetRec, FreshMsg, NoMsg, NoSig, Junk, Sig, Signers, VerifyOKm
<1> QED BY <1>1, <1>2, <1>3, <1>4 DEF ENext
====
