---- MODULE PsaInputs ----
(***************************************************************************)
(* The structured-input grammar of the decode entry points (C05, C06):     *)
(* what may be done to a valid seed (a CBOR token, a COSE envelope, a JSON *)
(* document) at every node of its tree, which hostile length headers and   *)
(* nesting depths are tried and where they are placed.  TLC enumerates the *)
(* plan; the harness applies it to the node tables of its seeds.  The only *)
(* things asserted about an arbitrary byte string are the outcome alphabet *)
(* and the resource bound (Trace_Codec!BytesOK); where the reader machine  *)
(* of PsaCodec has a verdict, the exact outcome (Trace_Codec!ReaderOK).    *)
(***************************************************************************)
EXTENDS Integers, Sequences, FiniteSets, Json, IOUtils, TLC
\* what a node may be replaced by
Replacements == {"null", "undef", "emptySame", "uint", "nint", "bstr", "tstr", "arrEmpty", "arr1", "mapEmpty", "map1", "bool", "float",
                 "tagged", "bstrWrapped", "arrWrapped", "indefSame", "hugeUint"}
\* same-type boundary values: an integer node is replaced by each of these (decimal strings: most exceed TLC's
\* integers), a byte / text string node by a string of each of these lengths
LifeCycleEdges == {ToString(st * 4096 + d) : st \in 0..15, d \in {0, 255, 256}}
IntBoundaries == LifeCycleEdges \cup
                 {"1", "23", "24", "65535", "65536", "2147483647", "2147483648", "4294967295", "4294967296",
                  "9223372036854775807", "9223372036854775808", "18446744073709551615",
                  "-1", "-24", "-25", "-256", "-257", "-65536", "-65537", "-2147483648", "-2147483649", "-4294967296",
                  "-9223372036854775808", "-9223372036854775809", "-18446744073709551616"}
LenBoundaries == {0, 1, 7, 8, 9, 31, 32, 33, 34, 47, 48, 49, 63, 64, 65, 255, 256}
\* structural edits of a container node (map / array / JSON object / JSON array)
ContainerEdits == {"dropFirst", "dropLast", "dupFirst", "dupLast", "swapFirstTwo", "appendNull", "appendSelf", "nullElement"}
\* JSON replacements
JsonReplacements == {"null", "true", "0", "-1", "1e400", "\"\"", "[]", "{}", "[null]", "{\"a\":{}}", "\"AAAA\"", "\"@@@\""}
\* hostile length headers: major type x argument width x declared length x bytes that follow
Majors == 2..6
Widths == {1, 2, 4, 8}
Declared == {"255", "256", "65535", "65536", "2^24", "2^31-1", "2^32-1", "2^63"}
Following == {0, 1, 5}
Placements == {"top", "coseElement", "payload", "claimValue", "swEntry", "componentField"}
Hostile == {[major |-> m, width |-> w, declared |-> d, following |-> f, place |-> p] :
              m \in Majors, w \in Widths, d \in Declared, f \in Following, p \in Placements}
\* a declared length must be representable in the width
Fits(h) == CASE h.width = 1 -> h.declared \in {"255"}
             [] h.width = 2 -> h.declared \in {"255", "256", "65535"}
             [] h.width = 4 -> h.declared \in {"255", "256", "65535", "65536", "2^24", "2^31-1", "2^32-1"}
             [] OTHER -> TRUE
HostileOK == {h \in Hostile : Fits(h)}
NestKinds == {"array", "map", "tag", "bstrWrap", "jsonArray", "jsonObject"}
NestDepths == {16, 32, 33, 64, 1000, 10000}
Nesting == {[kind |-> k, depth |-> d, place |-> p] : k \in NestKinds, d \in NestDepths, p \in {"top", "payload", "claimValue"}}
BigSizes == {1000, 65535, 65536}
Plan == [replacements |-> Replacements, containerEdits |-> ContainerEdits, jsonReplacements |-> JsonReplacements,
         hostile |-> HostileOK, nesting |-> Nesting, bigSizes |-> BigSizes,
         intBoundaries |-> IntBoundaries, lenBoundaries |-> LenBoundaries]
\* the outcome alphabet: what a decode entry point (and every follow-up call) may do
Outcomes == {"ok", "err"}
ASSUME Cardinality(HostileOK) > 1000
ASSUME JsonSerialize(IOEnv.OUT, Plan)
VARIABLE dummy
GInit == dummy = 0
GNext == UNCHANGED dummy
====
