---- MODULE MC_JsonKeys ----
(***************************************************************************)
(* structFieldsJSON.Delete, one loop iteration per action, over a Go slice *)
(* modelled as backing array + length (the range expression is evaluated   *)
(* once: the loop runs over the ORIGINAL length and reads the CURRENT       *)
(* backing array).  AsCoded = TRUE is the pinned code:                      *)
(*     for i, existing := range o.Keys {                                    *)
(*         if existing == key { o.Keys = append(o.Keys[:i], o.Keys[i+1:]...) } }  *)
(* TLC finds the slice-bounds panic for a key that occurs twice (D3).       *)
(* AsCoded = FALSE is the repaired filter.                                  *)
(***************************************************************************)
EXTENDS PsaCodec
CONSTANTS KeyPool, MaxKeys, AsCoded
VARIABLES arr, len, i, n0, key, out, orig
jvars == <<arr, len, i, n0, key, out, orig>>
KeySeqs == UNION {[1..n -> KeyPool] : n \in 0..MaxKeys}
JInit == /\ orig \in KeySeqs /\ key \in KeyPool /\ arr = orig /\ len = Len(orig) /\ n0 = Len(orig) /\ i = 1 /\ out = "running"
\* o.Keys = append(o.Keys[:i], o.Keys[i+1:]...) at 1-based index i: needs i+1 <= len + 1, i.e. i <= len
Splice(a, l, ix) == [j \in 1..Len(a) |-> IF j >= ix /\ j < l THEN a[j+1] ELSE a[j]]
Iter == /\ out = "running" /\ i <= n0
        /\ IF AsCoded
           THEN IF arr[i] = key                                        \* "existing" is read from the current backing array
                THEN IF i > len THEN out' = "panic" /\ UNCHANGED <<arr, len>>          \* o.Keys[i+1:] with i+1 > len(o.Keys)
                     ELSE arr' = Splice(arr, len, i) /\ len' = len - 1 /\ UNCHANGED out
                ELSE UNCHANGED <<arr, len, out>>
           ELSE UNCHANGED <<arr, len, out>>
        /\ i' = i + 1 /\ UNCHANGED <<n0, key, orig>>
Finish == /\ out = "running" /\ i = n0 + 1
          /\ IF AsCoded THEN UNCHANGED <<arr, len>>
             ELSE LET r == DeleteKeys(orig, key) IN arr' = r /\ len' = Len(r)
          /\ out' = "done" /\ UNCHANGED <<i, n0, key, orig>>
JNext == Iter \/ Finish
JSpec == JInit /\ [][JNext]_jvars
NoPanic == out # "panic"
\* afterwards the key is gone from Keys (as it is from Fields) and everything else is still there, in order
Result == SubSeq(arr, 1, len)
DeletedExactly == out = "done" => Result = DeleteKeys(orig, key)
====
