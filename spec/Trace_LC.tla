---- MODULE Trace_LC ----
\* Judge for C14: every event is one lifecycle value taken through the mapping, the validator,
\* both profiles' setters and the getters (after the setter, on a literal and on a decoded set).
EXTENDS PsaTypes, TraceLib
VARIABLES l, bad
vars == <<l, bad>>
R(ok, cls, val) == [ok |-> ok, cls |-> cls, val |-> val]
Match(e) ==
  LET v == e.v   ok == LifeCycleValid(v)
      getter == IF ok THEN R(TRUE, {}, IntV(v)) ELSE R(FALSE, {"wrongSyntax"}, Abs)
      setter == IF ok THEN R(TRUE, {}, Abs) ELSE R(FALSE, {"wrongSyntax"}, Abs)
      after  == IF ok THEN R(TRUE, {}, IntV(v)) ELSE R(FALSE, {"missingMandatory"}, Abs)   \* nothing stored on failure
      stored == IF ok THEN IntV(v) ELSE Abs
  IN /\ e.state = LifeCycleState(v)
     /\ e.valid = ok
     /\ e.name = StateName(LifeCycleState(v))
     /\ e.vok = ok /\ SeqToSet(e.vcls) = (IF ok THEN {} ELSE {"wrongSyntax"})
     /\ ObsRet(e.setP1) = setter /\ ObsRet(e.setP2) = setter
     /\ ObsRet(e.getP1) = after /\ ObsRet(e.getP2) = after
     /\ e.storeP1 = stored /\ e.storeP2 = stored
     /\ ObsRet(e.litP1) = getter /\ ObsRet(e.litP2) = getter
     /\ ObsRet(e.decP1) = getter /\ ObsRet(e.decP2) = getter
     \* the setter's verdict is independent of what the claims-set holds; a refused value leaves the old one
     /\ ObsRet(e.heldP1) = setter /\ ObsRet(e.heldP2) = setter
     /\ ObsRet(e.overP1) = setter /\ ObsRet(e.overP2) = setter
     /\ e.keptP1 = (IF ok THEN IntV(v) ELSE IntV(12288)) /\ e.keptP2 = (IF ok THEN IntV(v) ELSE IntV(12288))
     \* instances are independent: claims-sets given v by their own setter (before / after) still hold it after another
     \* claims-set's stored value was overwritten in place
     /\ ObsRet(e.indP1) = after /\ ObsRet(e.indP2) = after /\ ObsRet(e.indLate) = after
Init == l = 1 /\ bad = <<>>
Next == /\ l <= Len(Trace) /\ l' = l + 1
        /\ bad' = IF Match(Trace[l]) THEN bad ELSE Append(bad, l)
Spec == Init /\ [][Next]_vars
\* coverage post-condition: all 2^16 values, in order
Complete == Len(Trace) = 65536 /\ \A i \in 1..Len(Trace) : Trace[i].v = i - 1
Verdict == l = Len(Trace) + 1 => WriteVerdict([n |-> Len(Trace), bad |-> bad, cover |-> Complete,
                                              nvalid |-> Cardinality({i \in 1..Len(Trace) : Trace[i].valid})])
====
