SPECIFICATION PSpec
CONSTANTS
  Keys = {"k1", "k2"}
  Algs = {"ES256"}
  MaxInst = 2
INVARIANTS NoForgery Binding EmittedTokensConform GatesHold
VIEW PView
CHECK_DEADLOCK FALSE
