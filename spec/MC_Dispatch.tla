---- MODULE MC_Dispatch ----
(***************************************************************************)
(* The JSON dispatch of DecodeClaimsFromJSON as the code runs it: a loop   *)
(* over the register in Go's (unspecified) map order, one iteration per    *)
(* action, then the tail.  TLC explores every iteration order and checks   *)
(* that the outcome is the order-free function PsaWire!DispatchJSON (which *)
(* carries the default-to-profile-1 rule): C16's "same outcome regardless  *)
(* of registry iteration order", C07's JSON clauses.                       *)
(***************************************************************************)
EXTENDS MC_Registry
CONSTANT AsCodedBeforeFix        \* TRUE: the tail of the pinned code (no default) - kept as a documented deviation
VARIABLES dreg, doc, todo, found, out
dvars == <<dreg, doc, todo, found, out, rvars>>
X(n, k) == Entry(n, k)
Regs == {BaseReg} \cup {BaseReg @@ [n \in {"N1"} |-> X("N1", k)] : k \in {"X1", "X2", "X4"}}
        \cup {BaseReg @@ [n \in {"N1", "N2"} |-> IF n = "N1" THEN X("N1", k1) ELSE X("N2", k2)] : k1 \in {"X1", "X2", "X4"}, k2 \in {"X1", "X2", "X4"}}
DInit == RInit /\ dreg \in Regs /\ doc \in MCDocs /\ todo = DOMAIN dreg /\ found = "none" /\ out = "running"
Iter(n) ==
  /\ out = "running" /\ n \in todo
  /\ LET e == dreg[n]  m == JStr(doc, e.tag) IN
     IF m.t = "absent" THEN UNCHANGED <<found, out>>
     ELSE IF ~(m.t = "string" /\ m.str = e.canon) THEN UNCHANGED <<found, out>>        \* continue
     ELSE IF found # "none" /\ found # e.canon THEN out' = "err" /\ UNCHANGED found    \* matched multiple profiles
     ELSE found' = e.canon /\ UNCHANGED out
  /\ todo' = todo \ {n} /\ UNCHANGED <<dreg, doc>>
Finish ==
  /\ out = "running" /\ todo = {}
  /\ out' = IF found # "none" THEN dreg[found].impl
            ELSE IF AsCodedBeforeFix THEN "err"
            ELSE IF \E n \in DOMAIN dreg : JStr(doc, dreg[n].tag).t \notin {"absent", "null"} THEN "err"
            ELSE dreg[""].impl
  /\ UNCHANGED <<dreg, doc, todo, found>>
DNext == ((\E n \in DOMAIN dreg : Iter(n)) \/ Finish) /\ UNCHANGED rvars
DSpec == DInit /\ [][DNext]_dvars
Expected == LET d == DispatchJSON(dreg, doc) IN IF d.r = "ok" THEN d.e.impl ELSE "err"
OutcomeIsExpected == out # "running" => out = Expected
====
