---- MODULE MC_Json ----
(***************************************************************************)
(* Bounded instance of PsaJson over the class product of MC_Wire: every    *)
(* claims-set of the product is written as the JSON document the format    *)
(* relation prescribes (JDocOf, the constructive counterpart of            *)
(* PsaWire!JsonFormatOK) and read back by PsaJson!DecodeDoc.  Checks:      *)
(*   JsonFormatHolds   the constructed document satisfies JsonFormatOK     *)
(*   JDecodeEncodeId   DecodeDoc(JDocOf(o)) = o                            *)
(*   JVerdictIsValid   decode-and-validate on JSON accepts exactly the     *)
(*                     valid claims-sets                                   *)
(*   CborJsonAgree     the JSON form and the CBOR form of the same         *)
(*                     claims-set decode to the same claims-set (C12:      *)
(*                     "equivalent to the CBOR form", at the design level) *)
(***************************************************************************)
EXTENDS MC_Wire, PsaJson
JM0(name, t) == [NoMember EXCEPT !.name = name, !.t = t]
JScalarOf(name, v) ==
  CASE v.k = "bytes" -> [JM0(name, "string") EXCEPT !.b64 = TRUE, !.hb = v.h, !.n = v.n, !.vb = v]
    [] v.k = "int"   -> [JM0(name, "number") EXCEPT !.v = v.v]
    [] v.k = "text"  -> [JM0(name, "string") EXCEPT !.hs = v.h, !.n = v.n, !.vt = v]
    [] v.k = "str"   -> [JM0(name, "string") EXCEPT !.hs = v.h, !.n = v.n, !.vs = v]
    [] v.k = "prof"  -> [JM0(name, "string") EXCEPT !.str = v.s[1]]
JValueOf(name, v) == IF v.k = "nonces"
                     THEN IF v.n = 1 THEN JScalarOf(name, v.s[1])
                          ELSE [JM0(name, "array") EXCEPT !.n = v.n, !.arr = [i \in 1..v.n |-> JScalarOf("", v.s[i])]]
                     ELSE JScalarOf(name, v)
JCompOf(c) == LET fs == SelectSeq(CompOrder, LAMBDA f : Present(c[f])) IN
              [JM0("", "object") EXCEPT !.n = Len(fs), !.obj = [i \in 1..Len(fs) |-> JScalarOf(CompJsonNames[fs[i]], c[fs[i]])]]
JSwOf(name, l) == [JM0(name, "array") EXCEPT !.n = Len(l), !.arr = [i \in 1..Len(l) |-> JCompOf(l[i])]]
JDocOf(ob) == LET cs == SelectSeq(EmitOrder(ob.p), LAMBDA c : c \in Emitted(ob)) IN
              [JM0("", "object") EXCEPT !.n = Len(cs),
                 !.obj = [i \in 1..Len(cs) |-> IF cs[i] = "sw" THEN JSwOf(JsonNames(ob.p)["sw"], ob.sw.l)
                                               ELSE JValueOf(JsonNames(ob.p)[cs[i]], ob[cs[i]])]]
\* the profile member must name the implementation for the document to be dispatched to it at all
Dispatchable(ob) == ob.profile = Abs \/ ob.profile = Prof(ob.canon)
JBack(ob) == DecodeDoc(ob.p, ob.canon, JDocOf(ob))
JsonFormatHolds == Complete /\ Valid(o) => JsonFormatOK(o, JDocOf(o))
JDecodeEncodeId == Complete /\ Dispatchable(o) => JBack(o).r = "ok" /\ JBack(o).o = o
JVerdictIsValid == Complete /\ Dispatchable(o) => JsonVerdict(o.p, o.canon, JDocOf(o)) = (IF Valid(o) THEN "accept" ELSE "reject")
CborJsonAgree == Complete /\ Dispatchable(o) => JBack(o).o = Back(o).o
====
