---- MODULE MC_Codec ----
(***************************************************************************)
(* Bounded instance of the reader machine of PsaCodec: every input of up   *)
(* to MaxLen bytes over an alphabet of header bytes, one machine step per  *)
(* action, with a simple item oracle (bytes 0..23 are one-byte integers,   *)
(* nothing else is an item).  Checks that the required machine never reads *)
(* outside its input, never panics, accepts empty maps and reserves no     *)
(* more than the input can hold; with AsCoded = TRUE the pinned code's     *)
(* transitions violate three of these (defects D2, D4, D5).                *)
(***************************************************************************)
EXTENDS PsaCodec
CONSTANTS Alphabet, MaxLen, AsCoded
VARIABLES input, st
mvars == <<input, st>>
Inputs == UNION {[1..n -> Alphabet] : n \in 0..MaxLen}
SimpleOrc(s) == [key |-> [p \in 1..Len(s)+2 |-> IF p <= Len(s) /\ s[p] < 24 THEN [ok |-> TRUE, v |-> s[p], n |-> 1] ELSE [ok |-> FALSE, v |-> 0, n |-> 0]],
                 val |-> [p \in 1..Len(s)+2 |-> IF p <= Len(s) /\ s[p] < 24 THEN [ok |-> TRUE, n |-> 1] ELSE [ok |-> FALSE, n |-> 0]]]
MInit == input \in Inputs /\ st = RInit(input)
MNext == st.pc # "done" /\ st' = RStep(input, SimpleOrc(input), AsCoded, st) /\ UNCHANGED input
MSpec == MInit /\ [][MNext]_mvars
NoPanic == st.out # "panic"
InBounds == st.cur <= Len(input)
ReservedBounded == st.reserved <= ReservedBound(input)
\* a definite-length empty map (optionally tagged) is a map: it must be accepted
EmptyMapOK == (st.pc = "done" /\ input \in {<<160>>, <<192, 160>>, <<216, 24, 160>>}) => st.out = "ok"
\* the functional form used by the trace judge agrees with the stepwise machine
RunAgrees == st.pc = "done" => ReaderOutcome(input, SimpleOrc(input), AsCoded) = st
\* keys are distinct
KeysDistinct == ~HasDup(st.keys)
====
