SPECIFICATION WSpec
CONSTANT Full = FALSE
INVARIANTS JsonFormatHolds JDecodeEncodeId JVerdictIsValid CborJsonAgree
CHECK_DEADLOCK FALSE
