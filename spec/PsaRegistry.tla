---- MODULE PsaRegistry ----
(***************************************************************************)
(* The package state: the profile register (name -> implementation, JSON   *)
(* profile member name; "" is the default entry), NewClaims, the two       *)
(* dispatching decoders and the instances they hand out.                   *)
(*                                                                         *)
(* Instances are modelled with explicit identity for the one piece of      *)
(* state a factory could accidentally share: the component container.      *)
(* Every instance has a container id cid; cells[cid] is the component list *)
(* it sees.  Factories must allocate a fresh cell (FreshInstances).        *)
(***************************************************************************)
EXTENDS PsaWire
CONSTANTS Names,        \* profile names that may be registered
          Kinds,        \* kind -> [p, tag]: the claims type behind a profile ("none" tag = no profile field)
          MaxInst, Docs, Toks, MaxReg
VARIABLES reg, insts, cells, next, rret
rvars == <<reg, insts, cells, next, rret>>

Entry(name, kind) == [p |-> Kinds[kind].p, canon |-> name, impl |-> kind, tag |-> Kinds[kind].tag]
\* RegisterProfile: existence check, then tag discovery, then insert
RegisterF(r, name, kind) ==
  IF name \in DOMAIN r THEN [post |-> r, ok |-> FALSE]
  ELSE IF Kinds[kind].tag = "none" THEN [post |-> r, ok |-> FALSE]
  ELSE [post |-> [n \in DOMAIN r \cup {name} |-> IF n = name THEN Entry(name, kind) ELSE r[n]], ok |-> TRUE]
NewClaimsF(r, name) == IF name \in DOMAIN r THEN [ok |-> TRUE, e |-> r[name]] ELSE [ok |-> FALSE, e |-> NoEntry]

RInit == /\ reg = BaseReg /\ insts = <<>> /\ cells = <<>> /\ next = 1
         /\ rret = [op |-> "init", ok |-> TRUE, impl |-> "none"]
Register(name, kind) == LET x == RegisterF(reg, name, kind) IN
  /\ reg' = x.post /\ rret' = [op |-> "Register", ok |-> x.ok, impl |-> kind]
  /\ UNCHANGED <<insts, cells, next>>
\* every successful creation allocates a fresh container cell
Alloc(e) == /\ insts' = Append(insts, [impl |-> e.impl, canon |-> e.canon, cid |-> next])
            /\ cells' = Append(cells, <<>>) /\ next' = next + 1
NewClaims(name) == LET x == NewClaimsF(reg, name) IN
  /\ Len(insts) < MaxInst
  /\ rret' = [op |-> "NewClaims", ok |-> x.ok, impl |-> x.e.impl]
  /\ IF x.ok THEN Alloc(x.e) ELSE UNCHANGED <<insts, cells, next>>
  /\ UNCHANGED reg
DecodeJ(d) == LET x == DispatchJSON(reg, d) IN
  /\ Len(insts) < MaxInst
  /\ rret' = [op |-> "DecodeJSON", ok |-> x.r = "ok", impl |-> x.e.impl]
  /\ IF x.r = "ok" THEN Alloc(x.e) ELSE UNCHANGED <<insts, cells, next>>
  /\ UNCHANGED reg
DecodeC(t) == LET x == DispatchCBOR(reg, t) IN
  /\ Len(insts) < MaxInst
  /\ rret' = [op |-> "DecodeCBOR", ok |-> x.r = "ok", impl |-> x.e.impl]
  /\ IF x.r = "ok" THEN Alloc(x.e) ELSE UNCHANGED <<insts, cells, next>>
  /\ UNCHANGED reg
\* mutating one instance's component list touches only its own cell
Mutate(i) == /\ i \in 1..Len(insts)
             /\ Len(cells[insts[i].cid]) < 2
             /\ cells' = [cells EXCEPT ![insts[i].cid] = Append(@, "c")]
             /\ rret' = [op |-> "Mutate", ok |-> TRUE, impl |-> insts[i].impl]
             /\ UNCHANGED <<reg, insts, next>>
\* registration is also attempted under the names already taken from the start (both built-in profiles, the default alias)
RegNames == Names \cup {P1Name, P2Name, ""}
RNext == \/ \E n \in RegNames, k \in DOMAIN Kinds : Cardinality(DOMAIN reg) < MaxReg /\ Register(n, k)
         \/ \E n \in Names \cup {P1Name, P2Name, "http://UNKNOWN"} : NewClaims(n)
         \/ \E d \in Docs : DecodeJ(d)
         \/ \E t \in Toks : DecodeC(t)
         \/ \E i \in 1..MaxInst : Mutate(i)
RSpec == RInit /\ [][RNext]_rvars

\* ---------- properties (C16, C07) ----------
AppendOnly == [][\A n \in DOMAIN reg : n \in DOMAIN reg' /\ reg'[n] = reg[n]]_rvars
FailedRegisterChangesNothing == [][rret'.op = "Register" /\ ~rret'.ok => reg' = reg]_rvars
\* a new profile changes the outcome of creating / decoding only for what declares that profile
\* (a document "declares" a newly registered profile when it carries a non-null member under that
\* profile's JSON tag: once the tag is known, an unmatched value there is an unregistered profile)
Declares(d, r1, r2) == \E n \in DOMAIN r2 \ DOMAIN r1 : JStr(d, r2[n].tag).t \notin {"absent", "null"}
OnlyDeclaringDocsAffected ==
  [][\A d \in Docs : DispatchJSON(reg', d) # DispatchJSON(reg, d) => Declares(d, reg, reg')]_rvars
OnlyDeclaringToksAffected ==
  [][\A t \in Toks : DispatchCBOR(reg', t) # DispatchCBOR(reg, t) => Lookup(t, 265).str \in DOMAIN reg' \ DOMAIN reg]_rvars
OnlyNamedLookupAffected ==
  [][\A n \in Names \cup {P1Name, P2Name} : NewClaimsF(reg', n) # NewClaimsF(reg, n) => n \in DOMAIN reg' \ DOMAIN reg]_rvars
FreshInstances == \A i, j \in 1..Len(insts) : i # j => insts[i].cid # insts[j].cid
\* NewClaims(p) reports p; the default profile stays profile 1
ReportsDeclared == \A n \in DOMAIN reg \ {""} : reg[n].canon = n
DefaultIsP1 == reg[""].impl = "P1" /\ reg[P1Name].impl = "P1" /\ reg[P2Name].impl = "P2"
RView == <<reg, insts, cells>>
====
