---- MODULE PsaCodecReaderProofs ----
(***************************************************************************)
(* TLAPS proof about the reader machine of PsaCodecReader (the hand-       *)
(* written CBOR map reader of package encoding) for an ARBITRARY input S   *)
(* of any length and an arbitrary item oracle that behaves like a parser   *)
(* (an item reported well-formed at byte p has at least one byte and ends  *)
(* inside the input).  MC_Codec checks the same by enumeration for inputs  *)
(* of up to 5 bytes.  Proved: in every reachable state                     *)
(*   InBounds   0 <= cur <= Len(S)       (never reads outside its input)   *)
(*   NoPanic    out # "panic"                                    (C05)     *)
(*   Reserved   2 * reserved <= cur, hence reserved <= ReservedBound(S):   *)
(*              what is reserved is covered by bytes present     (C06)     *)
(* 82 obligations, tlapm --threads 8, ~10 s.  Non-vacuity: with the pinned *)
(* code's transitions (AsCoded = TRUE) the obligations of the tag step     *)
(* (panic on a lone tag, D2) and of the map-header step (reservation from  *)
(* the declared length, D4) are not provable.                              *)
(***************************************************************************)
EXTENDS PsaCodecReader, TLAPS

CONSTANTS S, Orc
ASSUME SAssump == S \in Seq(0..255)
\* the item oracle is the CBOR library parsing the rest of the input: an item that starts at byte p and is
\* reported as well-formed has at least one byte and ends inside the input
ASSUME OrcAssump ==
  /\ \A p \in Int : Orc.key[p].ok => (Orc.key[p].n \in Int /\ Orc.key[p].n >= 1 /\ p + Orc.key[p].n <= Len(S) + 1 /\ Orc.key[p].v \in Int)
  /\ \A p \in Int : Orc.val[p].ok => (Orc.val[p].n \in Int /\ Orc.val[p].n >= 1 /\ p + Orc.val[p].n <= Len(S) + 1)

VARIABLE st
Init == st = RInit(S)
Next == st.pc # "done" /\ st' = RStep(S, Orc, FALSE, st)
Spec == Init /\ [][Next]_st

PCs == {"start", "tagarg", "checkmap", "pairs", "done"}
StType == [pc : PCs, cur : Int, major : Int, ai : Int, mapLen : Int, indef : BOOLEAN, reserved : Int, got : Int,
           keys : Seq(Int), out : {"running", "ok", "err"}]
Inv == /\ st \in StType                                            \* in particular NoPanic: out is never "panic"
       /\ st.cur >= 0 /\ st.cur <= Len(S)                          \* InBounds: the cursor never leaves the input
       /\ st.reserved >= 0
       /\ 2 * st.reserved <= st.cur                                 \* what is reserved is covered by bytes that were present
       /\ (st.pc = "start" => st.cur = 0)

LEMMA LenS == Len(S) \in Nat BY SAssump

THEOREM InitInv == Init => Inv
  BY LenS DEF Init, Inv, RInit, PCs, StType

LEMMA StepStart == ASSUME Inv, Next, st.pc = "start" PROVE Inv'
  BY LenS, SAssump DEF Inv, Next, RStep, Halt, PCs, StType

LEMMA ArgBytesInt == \A a \in Int : ArgBytes(a) \in {-1, 0, 1, 2, 4}
  BY DEF ArgBytes

LEMMA StepTagarg == ASSUME Inv, Next, st.pc = "tagarg" PROVE Inv'
  BY LenS, SAssump, ArgBytesInt DEF Inv, Next, RStep, Halt, PCs, StType

LEMMA ArgValInt == ASSUME NEW c \in Int, NEW a \in Int, c >= 0, ArgBytes(a) >= 0, c + ArgBytes(a) <= Len(S)
                    PROVE ArgVal(S, c, a) \in Int
<1>1. \A i \in 1..Len(S) : S[i] \in Int BY SAssump
<1>2. CASE a < 24 BY <1>2 DEF ArgVal
<1>3. CASE a = 24 BY <1>3, <1>1, LenS DEF ArgVal, ArgBytes
<1>4. CASE a = 25 BY <1>4, <1>1, LenS DEF ArgVal, ArgBytes
<1>5. CASE a = 26 BY <1>5, <1>1, LenS DEF ArgVal, ArgBytes
<1>6. CASE a > 26 BY <1>6 DEF ArgVal
<1> QED BY <1>2, <1>3, <1>4, <1>5, <1>6

LEMMA StepCheckmap == ASSUME Inv, Next, st.pc = "checkmap" PROVE Inv'
<1>1. CASE st.major # 5 \/ ArgBytes(st.ai) < 0 \/ Len(S) - st.cur < ArgBytes(st.ai)
  BY <1>1, LenS DEF Inv, Next, RStep, Halt, PCs, StType
<1>2. CASE ~(st.major # 5 \/ ArgBytes(st.ai) < 0 \/ Len(S) - st.cur < ArgBytes(st.ai))
  <2>2. ArgBytes(st.ai) \in {0, 1, 2, 4} BY <1>2, ArgBytesInt DEF Inv, StType
  <2>3. st.cur \in Int /\ st.ai \in Int /\ st.cur >= 0 /\ ArgBytes(st.ai) >= 0 /\ st.cur + ArgBytes(st.ai) <= Len(S)
        BY <1>2, <2>2, LenS DEF Inv, StType
  <2>1. ArgVal(S, st.cur, st.ai) \in Int BY <2>3, ArgValInt
  <2> QED BY <1>2, <2>1, <2>2, LenS DEF Inv, Next, RStep, PCs, StType
<1> QED BY <1>1, <1>2

LEMMA StepPairs == ASSUME Inv, Next, st.pc = "pairs" PROVE Inv'
  BY LenS, SAssump, OrcAssump DEF Inv, Next, RStep, Halt, PCs, StType

THEOREM Inductive == Inv /\ [Next]_st => Inv'
<1> SUFFICES ASSUME Inv, [Next]_st PROVE Inv' OBVIOUS
<1>1. CASE UNCHANGED st BY <1>1 DEF Inv
<1>2. CASE Next
  <2>1. st.pc \in {"start", "tagarg", "checkmap", "pairs"} BY <1>2 DEF Inv, Next, PCs, StType
  <2> QED BY <1>2, <2>1, StepStart, StepTagarg, StepCheckmap, StepPairs
<1> QED BY <1>1, <1>2

THEOREM Safety == Spec => []Inv
  BY InitInv, Inductive, PTL DEF Spec

\* the resource rule of C06 for the reader
THEOREM Reserved == Inv => st.reserved <= ReservedBound(S) /\ st.out # "panic"
  BY LenS DEF Inv, ReservedBound, StType
====
