---- MODULE MC_Registry ----
EXTENDS PsaRegistry
MCKinds == [X1 |-> [p |-> "P1", tag |-> "psa-profile"], X2 |-> [p |-> "P2", tag |-> "eat-profile"],
            X4 |-> [p |-> "P1", tag |-> "my-profile"], X5 |-> [p |-> "P1", tag |-> "none"], X6 |-> [p |-> "P1", tag |-> "none"],
            X7 |-> [p |-> "P2", tag |-> "eat-profile"]]        \* base claims behind an embedded interface
\* JSON documents: only the members that matter for dispatch
JM(name, t, str) == [name |-> name, t |-> t, v |-> 0, b64 |-> FALSE, hb |-> "", hs |-> "", n |-> 0, str |-> str, arr |-> <<>>, obj |-> <<>>]
JDoc(members) == [name |-> "", t |-> "object", v |-> 0, b64 |-> FALSE, hb |-> "", hs |-> "", n |-> Len(members), str |-> "", arr |-> <<>>, obj |-> members]
Vals == {"absent", "null", P1Name, P2Name, "N1", "N2", "http://UNKNOWN"}
Mem(tag, v) == IF v = "absent" THEN <<>> ELSE IF v = "null" THEN <<JM(tag, "null", "")>> ELSE <<JM(tag, "string", v)>>
MCDocs == {JDoc(Mem("psa-profile", a) \o Mem("eat-profile", b) \o Mem("my-profile", c)) : a \in Vals, b \in Vals, c \in {"absent", "N1", "N2"}}
\* CBOR tokens: only key 265 matters
Sel(v) == IF v = "absent" THEN <<>> ELSE <<[k |-> [NoneItem EXCEPT !.t = "uint", !.v = 265, !.w = "u16"],
                                            it |-> IF v = "null" THEN [NoneItem EXCEPT !.t = "null"] ELSE [NoneItem EXCEPT !.t = "tstr", !.str = v]]>>
MCToks == {[NoneItem EXCEPT !.t = "map", !.pairs = Sel(v)] : v \in Vals}
====
