---- MODULE PsaCodecReader ----
(***************************************************************************)
(* The transition function of the hand-written CBOR map reader             *)
(* (structFieldsCBOR.FromCBOR + processAdditionalInfo) as a cursor machine *)
(* over the input bytes - see PsaCodec, Part 2, for the description.  Kept *)
(* in a module of its own, free of RECURSIVE operators, so that TLAPS can  *)
(* read it (PsaCodecReaderProofs).                                         *)
(***************************************************************************)
EXTENDS Integers, Sequences

ArgBytes(a) == CASE a < 24 -> 0 [] a = 24 -> 1 [] a = 25 -> 2 [] a = 26 -> 4 [] a = 31 -> 0 [] OTHER -> -1    \* 27: 8-byte length refused
ArgVal(s, c, a) == CASE a < 24 -> a
                     [] a = 24 -> s[c+1]
                     [] a = 25 -> s[c+1] * 256 + s[c+2]
                     [] a = 26 -> IF s[c+1] >= 128 THEN 2147483647             \* beyond TLC's integers: "huge"
                                  ELSE ((s[c+1] * 256 + s[c+2]) * 256 + s[c+3]) * 256 + s[c+4]
                     [] OTHER -> 0
RInit(s) == [pc |-> "start", cur |-> 0, major |-> -1, ai |-> -1, mapLen |-> -1, indef |-> FALSE, reserved |-> 0,
             got |-> 0, keys |-> <<>>, out |-> "running"]
Halt(st, o) == [st EXCEPT !.out = o, !.pc = "done"]
InSeq(x, s) == \E i \in 1..Len(s) : s[i] = x
\* one transition of the machine (st.pc # "done")
RStep(s, orc, asCoded, st) ==
  LET rem == Len(s) - st.cur IN
  CASE st.pc = "start" ->
         IF Len(s) = 0 THEN Halt(st, "err")
         ELSE [st EXCEPT !.major = s[1] \div 32, !.ai = s[1] % 32, !.cur = 1,
                         !.pc = IF s[1] \div 32 = 6 THEN "tagarg" ELSE "checkmap"]
    [] st.pc = "tagarg" ->
         IF ArgBytes(st.ai) < 0 \/ rem < ArgBytes(st.ai) THEN Halt(st, "err")
         ELSE LET c2 == st.cur + ArgBytes(st.ai) IN
              IF c2 >= Len(s) THEN Halt(st, IF asCoded THEN "panic" ELSE "err")      \* nothing after the tag
              ELSE [st EXCEPT !.major = s[c2+1] \div 32, !.ai = s[c2+1] % 32, !.cur = c2 + 1, !.pc = "checkmap"]
    [] st.pc = "checkmap" ->
         IF st.major # 5 THEN Halt(st, "err")
         ELSE IF ArgBytes(st.ai) < 0 \/ rem < ArgBytes(st.ai) THEN Halt(st, "err")
         ELSE LET n == ArgVal(s, st.cur, st.ai) IN
              [st EXCEPT !.mapLen = n, !.cur = st.cur + ArgBytes(st.ai),
                         !.indef = IF asCoded THEN (n = 0) ELSE (st.ai = 31),
                         !.reserved = IF asCoded THEN n ELSE 0,                        \* make(map, mapLen)
                         !.pc = "pairs"]
    [] st.pc = "pairs" ->
         IF st.indef /\ rem = 0 THEN Halt(st, "err")                                    \* no break: unexpected EOF
         ELSE IF st.indef /\ s[st.cur+1] = 255 THEN Halt(st, "ok")
         ELSE IF ~st.indef /\ st.got = st.mapLen THEN Halt(st, "ok")
         ELSE LET k == orc.key[st.cur+1] IN
              IF rem = 0 \/ ~k.ok THEN Halt(st, "err")
              ELSE LET v == orc.val[st.cur + k.n + 1] IN
                   IF st.cur + k.n >= Len(s) \/ ~v.ok THEN Halt(st, "err")
                   ELSE IF InSeq(k.v, st.keys) THEN Halt(st, "err")                     \* duplicate key
                   ELSE [st EXCEPT !.keys = Append(@, k.v), !.cur = st.cur + k.n + v.n, !.got = @ + 1,
                                   !.reserved = IF asCoded THEN @ ELSE @ + 1]
\* the resource rule of C06 for this reader: what it reserves is bounded by what is present
ReservedBound(s) == 4 + 2 * Len(s)
====
