---- MODULE TraceLib ----
(***************************************************************************)
(* Shared plumbing of the trace judges.  A judge is a TLA+ behaviour spec  *)
(* with one TLC state per recorded event: variable l walks the trace, the  *)
(* family's Match operator (built from the family module's step functions) *)
(* decides each event, and indices of events no spec step explains are     *)
(* collected in bad (a monitor, not a gate: the rest of the trace is still *)
(* checked).  At the last state the verdict is written as JSON.            *)
(*   TRACE  environment variable: the NDJSON file recorded from the code   *)
(*   OUT    environment variable: where the verdict record goes            *)
(***************************************************************************)
EXTENDS Integers, Sequences, FiniteSets, Json, IOUtils, TLC
Trace == ndJsonDeserialize(IOEnv.TRACE)
SeqToSet(s) == {s[i] : i \in 1..Len(s)}
\* observed result -> spec result (the class list becomes a set)
ObsRet(r) == [ok |-> r.ok, cls |-> SeqToSet(r.cls), val |-> r.val]
\* ids of the open known findings (a JSON file {"open": [...]}) the judge may use to explain an event
OpenKF == SeqToSet(JsonDeserialize(IOEnv.KF).open)
\* smallest set of open findings under which Explains(T) holds, as [found, ids]
Explain(Explains(_)) ==
  IF Explains({}) THEN [found |-> TRUE, ids |-> {}]
  ELSE LET cands == {T \in SUBSET OpenKF : T # {} /\ Explains(T)} IN
       IF cands = {} THEN [found |-> FALSE, ids |-> {}]
       ELSE [found |-> TRUE, ids |-> CHOOSE T \in cands : \A U \in cands : Cardinality(T) <= Cardinality(U)]
\* optional judge mode (environment variable MODE)
Mode == IF "MODE" \in DOMAIN IOEnv THEN IOEnv.MODE ELSE ""
WriteVerdict(rec) == JsonSerialize(IOEnv.OUT, rec)
====
