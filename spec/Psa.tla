---- MODULE Psa ----
(***************************************************************************)
(* The composition: the whole library as one state machine.  The parts are *)
(* the modules of this directory - the claims-set object (PsaClaims), the  *)
(* wire form (PsaWire: the encoder, the decoder, profile dispatch), the    *)
(* register (PsaRegistry's step functions) and the Evidence object with    *)
(* symbolic signatures (as in PsaEvidence, but here the attached claims    *)
(* are real claims-set records and the payload is a real token).           *)
(*                                                                         *)
(*   insts   the claims-set instances handed out so far (NewClaims,        *)
(*           decoding); setters act on one of them                         *)
(*   att     index of the instance attached to the Evidence (0 = none)     *)
(*   msg     the envelope: [st, payload (a token or NoTok), alg, sig]      *)
(*           sig = [k, a, tok]: a valid signature by key k over exactly    *)
(*           (alg a, token tok); NoSig; Junk                               *)
(*   net     the tokens returned by signing so far (what an adversary may  *)
(*           present again, unchanged or with the payload / algorithm      *)
(*           swapped)                                                      *)
(*   dirty   ghost: the attached instance was replaced or mutated since    *)
(*           the last sign / decode                                        *)
(*                                                                         *)
(* End-to-end properties (the composition of C01, C03, C04, C07-C10, C19): *)
(* whatever ValidateAndSign emits is the profile's wire format of a valid  *)
(* claims-set; decoding an honest token gives back exactly the claims that *)
(* were signed, under the implementation registered for the declared       *)
(* profile; and whenever verification succeeds on an undisturbed Evidence  *)
(* the attached claims ARE the decoding of the verified payload.           *)
(***************************************************************************)
EXTENDS PsaWire
CONSTANTS Keys, Algs, MaxInst
VARIABLES insts, att, msg, net, dirty, pret
pvars == <<insts, att, msg, net, dirty, pret>>

NoTok == [NoneItem EXCEPT !.t = "none"]
PNoSig == [k |-> "none", a |-> "none", tok |-> NoTok]
PJunk == [k |-> "junk", a |-> "none", tok |-> NoTok]
PSig(k, a, tok) == [k |-> k, a |-> a, tok |-> tok]
PNoMsg == [st |-> "none", payload |-> NoTok, alg |-> "none", sig |-> PNoSig]
PFresh == [PNoMsg EXCEPT !.st = "some"]
H(n) == [Bytes(n, 2) EXCEPT !.h = "h" \o ToString(n)]
Inst1 == [Bytes(33, 1) EXCEPT !.h = "i"]
\* a small value domain: instances come out of a "builder" with every mandatory claim but two already set
\* (so that the bounded model reaches valid claims-sets within a few steps); the setters offered complete or spoil them
SetDom(p) == {<<"implId", H(32)>>, <<"implId", H(31)>>, <<"lifecycle", IntV(256)>>, <<"vsi", [Str(3, 0) EXCEPT !.h = "v"]>>}
Prefilled(p, canon) == [Fresh(p, canon) EXCEPT !.clientId = IntV(1), !.lifecycle = IntV(12288), !.nonce = IF p = "P1" THEN H(32) ELSE Nonces(<<H(32)>>),
                                               !.instId = Inst1, !.bootSeed = IF p = "P1" THEN H(32) ELSE Abs]
OkComp == Comp(Abs, H(32), Abs, H(32), Abs)
PInit == insts = <<>> /\ att = 0 /\ msg = PNoMsg /\ net = <<>> /\ dirty = FALSE /\ pret = [op |-> "init", ok |-> TRUE]
Ret2(op, ok) == [op |-> op, ok |-> ok]

\* net keeps the last two distinct tokens that were emitted (a set in the state would explode)
Remember(w, m) == IF \E i \in 1..Len(w) : w[i] = m THEN w ELSE IF Len(w) < 2 THEN Append(w, m) ELSE <<w[2], m>>
NetSet == {net[i] : i \in 1..Len(net)}
\* ---- the claims API on instance i ----
NewClaims(name) == /\ Len(insts) < MaxInst /\ name \in DOMAIN BaseReg
                   /\ insts' = Append(insts, Prefilled(BaseReg[name].p, BaseReg[name].canon))
                   /\ pret' = Ret2("NewClaims", TRUE) /\ UNCHANGED <<att, msg, net, dirty>>
Setter(i) == /\ i \in 1..Len(insts)
             /\ \E cv \in SetDom(insts[i].p) : LET x == SetF(insts[i], cv[1], cv[2]) IN
                  /\ insts' = [insts EXCEPT ![i] = x.post] /\ pret' = Ret2("Set", x.ret.ok)
                  /\ dirty' = (dirty \/ (i = att /\ x.ret.ok))          \* mutating the attached object counts as replacing it
             /\ UNCHANGED <<att, msg, net>>
SetSwOn(i) == /\ i \in 1..Len(insts)
              /\ LET x == SetSwF(insts[i], <<OkComp>>, FALSE) IN insts' = [insts EXCEPT ![i] = x.post] /\ pret' = Ret2("SetSw", x.ret.ok)
              /\ dirty' = (dirty \/ i = att) /\ UNCHANGED <<att, msg, net>>
\* ---- the Evidence API ----
SetClaims(i) == /\ i \in 1..Len(insts)
                /\ IF Valid(insts[i]) THEN att' = i /\ dirty' = TRUE /\ pret' = Ret2("SetClaims", TRUE)
                   ELSE UNCHANGED <<att, dirty>> /\ pret' = Ret2("SetClaims", FALSE)
                /\ UNCHANGED <<insts, msg, net>>
Attach(i) == /\ i \in 1..Len(insts) /\ att' = i /\ dirty' = TRUE /\ pret' = Ret2("Attach", TRUE) /\ UNCHANGED <<insts, msg, net>>
\* reset envelope -> [validate] -> encode -> set alg -> sign -> marshal
SignWith(kind, k, a, validate) ==
  /\ att # 0
  /\ LET c == insts[att] IN
     IF validate /\ ~Valid(c)
     THEN msg' = PFresh /\ net' = net /\ pret' = Ret2("ValidateAndSign", FALSE)
     ELSE LET tok == EncodeTok(c)  m1 == [PFresh EXCEPT !.payload = tok, !.alg = a] IN
          CASE kind = "err" -> msg' = m1 /\ net' = net /\ pret' = Ret2("Sign", FALSE)
            [] kind = "good" -> LET m2 == [m1 EXCEPT !.sig = PSig(k, a, tok)] IN
                                msg' = m2 /\ net' = Remember(net, m2) /\ pret' = Ret2(IF validate THEN "ValidateAndSign" ELSE "Sign", TRUE)
  /\ dirty' = FALSE /\ UNCHANGED <<insts, att>>
\* the adversary presents a remembered token, possibly with payload or algorithm taken from another one or a junk signature
Presentable == NetSet \cup {[m EXCEPT !.payload = m2.payload] : m \in NetSet, m2 \in NetSet} \cup {[m EXCEPT !.alg = a] : m \in NetSet, a \in Algs}
                   \cup {[m EXCEPT !.sig = PJunk] : m \in NetSet}
UnmarshalCOSE(t) ==
  /\ Len(insts) < MaxInst
  /\ msg' = t
  /\ LET d == DispatchCBOR(BaseReg, t.payload) IN
     IF d.r = "ok" /\ DecodeTok({}, d.e.p, d.e.canon, t.payload).r = "ok"
     THEN /\ insts' = Append(insts, DecodeTok({}, d.e.p, d.e.canon, t.payload).o)
          /\ att' = Len(insts) + 1 /\ pret' = Ret2("UnmarshalCOSE", TRUE)
     ELSE insts' = insts /\ att' = 0 /\ pret' = Ret2("UnmarshalCOSE", FALSE)
  /\ dirty' = FALSE /\ UNCHANGED net
VerifyOK(k) == msg.st = "some" /\ msg.alg \in Algs /\ msg.payload.t # "none" /\ msg.sig = PSig(k, msg.alg, msg.payload)
Verify(k) == pret' = Ret2("Verify", VerifyOK(k)) /\ UNCHANGED <<insts, att, msg, net, dirty>>
PNext == \/ \E n \in {P1Name, P2Name} : NewClaims(n)
         \/ \E i \in 1..MaxInst : Setter(i) \/ SetSwOn(i) \/ SetClaims(i) \/ Attach(i)
         \/ \E kind \in {"good", "err"}, k \in Keys, a \in Algs, v \in BOOLEAN : SignWith(kind, k, a, v)
         \/ \E t \in Presentable : UnmarshalCOSE(t)
         \/ \E k \in Keys : Verify(k)
PSpec == PInit /\ [][PNext]_pvars

\* ---------- end-to-end properties ----------
\* whatever verifies was signed by that key over exactly that header and payload
\* (honest tokens that slid out of the window are still honest: the signature names what it covers)
NoForgery == \A k \in Keys : VerifyOK(k) => msg.sig.tok = msg.payload /\ msg.sig.a = msg.alg /\ msg.sig.k = k
\* an undisturbed Evidence that verifies exposes exactly the decoding of the verified payload
DecodedPayload(m) == LET d == DispatchCBOR(BaseReg, m.payload) IN DecodeTok({}, d.e.p, d.e.canon, m.payload)
Binding == \A k \in Keys : VerifyOK(k) /\ ~dirty /\ att # 0 =>
             DecodedPayload(msg).r = "ok" /\ DecodedPayload(msg).o = insts[att]
\* a token emitted by the validating signer carries a valid claims-set in the profile's wire format, declares the
\* profile it was built under, and is accepted again
EmittedTokensConform == pret.op = "ValidateAndSign" /\ pret.ok =>
     /\ Valid(insts[att]) /\ WireFormatOK(insts[att], msg.payload)
     /\ Accept({}, BaseReg, msg.payload) = "accept"
     /\ DispatchCBOR(BaseReg, msg.payload).e.canon = insts[att].canon
\* validating gates never pass an invalid claims-set
GatesHold == /\ (pret.op = "SetClaims" /\ pret.ok => Valid(insts[att]))
             /\ (pret.op = "ValidateAndSign" /\ pret.ok => Valid(insts[att]))
\* TLC evaluates state invariants on states that are new under the VIEW only: the view keeps exactly what the
\* invariants look at in the last call's result (whether a validating gate has just succeeded), and drops the rest
PView == <<insts, att, msg, net, dirty, pret.op = "ValidateAndSign" /\ pret.ok, pret.op = "SetClaims" /\ pret.ok>>
====
