---- MODULE PsaWire ----
(***************************************************************************)
(* The CBOR wire form of a claims-set: abstract data items, the key tables *)
(* of both profiles, decoding an item into a claim value, decoding and     *)
(* encoding whole tokens, the wire-format predicate (C10) and the          *)
(* accept / reject verdict of decode-and-validate (C04).                   *)
(*                                                                         *)
(* An abstract item is what the harness's independent CBOR reader reports  *)
(* for the bytes actually handed to the library:                           *)
(*   t     "uint" "nint" "bstr" "tstr" "arr" "map" "tag" "null" "undef"    *)
(*         "bool" "float" "simple";  "none" = the key is not in the map    *)
(*   n     byte length (strings) / element count (arrays, maps)            *)
(*   b0    strings: class of first byte (bstr) / character class (tstr)    *)
(*   v     integer value when it fits 32 bits signed, tag number           *)
(*   w     integers: "u16" (0..65535) "i32" (.. 2^31-1) "u32" "u64";       *)
(*         negative: "i32" (>= -2^31) "big";  floats: "integral" "frac"    *)
(*         "nan" "inf"                                                     *)
(*   nr, s text: number of runes and D/H/X shape;  str: the text itself    *)
(*         when short and printable;  utf8: well-formed                    *)
(*   h     identity of the content;  indef: indefinite length              *)
(*   items array elements / tag content;  pairs: map entries [k, it]       *)
(***************************************************************************)
EXTENDS PsaClaims

KeysP1 == [profile |-> -75000, clientId |-> -75001, lifecycle |-> -75002, implId |-> -75003, bootSeed |-> -75004,
           certRef |-> -75005, sw |-> -75006, noSw |-> -75007, nonce |-> -75008, instId |-> -75009, vsi |-> -75010]
KeysP2 == [profile |-> 265, clientId |-> 2394, lifecycle |-> 2395, implId |-> 2396, bootSeed |-> 2397,
           certRef |-> 2398, sw |-> 2399, nonce |-> 10, instId |-> 256, vsi |-> 2400]
CompKeys == [mt |-> 1, mv |-> 2, ver |-> 4, sid |-> 5, desc |-> 6]
WireClaims(p) == IF p = "P1" THEN Claims ELSE Claims \ {"noSw"}
KeyOf(p, c) == IF p = "P1" THEN KeysP1[c] ELSE KeysP2[c]
\* the order in which the claims are emitted
EmitOrder(p) == IF p = "P1" THEN <<"profile","clientId","lifecycle","implId","bootSeed","certRef","sw","noSw","nonce","instId","vsi">>
                            ELSE <<"profile","clientId","lifecycle","implId","bootSeed","certRef","sw","nonce","instId","vsi">>
CompOrder == <<"mt","mv","ver","sid","desc">>

NoneItem == [t |-> "none", n |-> 0, b0 |-> 0, v |-> 0, w |-> "na", nr |-> 0, s |-> <<>>, str |-> "", utf8 |-> TRUE,
             h |-> "", indef |-> FALSE, items |-> <<>>, pairs |-> <<>>]
\* integer key of a map entry (text / out-of-range / other keys never name a claim)
IsIntKey(k) == k.t \in {"uint", "nint"} /\ k.w \in {"u16", "i32"}
\* keys of the claim-key space: integers and text strings; anything else is outside the property
KeySpaceOK(m) == \A i \in 1..Len(m.pairs) : m.pairs[i].k.t \in {"uint", "nint", "tstr"}
\* entries of a map item whose key is the integer kv
Entries(m, kv) == {i \in 1..Len(m.pairs) : IsIntKey(m.pairs[i].k) /\ m.pairs[i].k.v = kv}
Lookup(m, kv) == IF Entries(m, kv) = {} THEN NoneItem ELSE m.pairs[CHOOSE i \in Entries(m, kv) : TRUE].it
DupKeys(m) == \E i, j \in 1..Len(m.pairs) : i # j /\ m.pairs[i].k.t = m.pairs[j].k.t /\ m.pairs[i].k.h = m.pairs[j].k.h
              /\ m.pairs[i].k.v = m.pairs[j].k.v /\ m.pairs[i].k.w = m.pairs[j].k.w
\* a text key spelling the decimal form of one of the integer keys ks (finding D11: the decoder
\* treats it as that integer key)
TextAlias(m, ks) == \E i \in 1..Len(m.pairs) : m.pairs[i].k.t = "tstr" /\ \E kv \in ks : m.pairs[i].k.str = ToString(kv)

(***************************************************************************)
(* Named deviations of the implementation (known findings).  Every decode  *)
(* operator takes the set tol of deviations to tolerate; the required      *)
(* behaviour is tol = {}.  The judge first tries {}, then the open         *)
(* findings, and reports which finding explains an event.                  *)
(*  "D9"  a byte-string claim given as an array of small unsigned integers *)
(*        is decoded as the byte string with those values                  *)
(*  "D10" null / undefined in place of a claim value is decoded as "claim  *)
(*        absent"                                                          *)
(*  "D11" a text key spelling an integer claim key is taken for that key   *)
(***************************************************************************)
\* ---------- one item into the claim's type: value / error / left open by the specifications ----------
Val(v) == [r |-> "val", v |-> v]
Err    == [r |-> "err", v |-> Abs]
Open   == [r |-> "open", v |-> Abs]
WithH(v, h) == [v EXCEPT !.h = h]
IsNullish(it) == it.t \in {"null", "undef"}
DecBytes(tol, it) ==
  CASE it.t = "none" -> Val(Abs)
    [] it.t = "bstr" -> IF it.indef THEN Err ELSE Val(WithH(Bytes(it.n, it.b0), it.h))
    [] it.t = "tag"  -> Open
    [] IsNullish(it) /\ "D10" \in tol -> Val(Abs)
    [] it.t = "arr" /\ it.w = "u8s" /\ ~it.indef /\ "D9" \in tol -> Val(WithH(Bytes(it.n, it.b0), it.h))
    [] OTHER -> Err             \* null, arrays of small integers, text ... are not byte strings
DecInt(tol, it, widths, allowNeg) ==
  CASE it.t = "none" -> Val(Abs)
    [] it.t = "uint" -> IF it.w \in widths THEN Val(IntV(it.v)) ELSE Err
    [] it.t = "nint" -> IF allowNeg /\ it.w = "i32" THEN Val(IntV(it.v)) ELSE Err
    [] it.t = "tag"  -> Open
    [] IsNullish(it) /\ "D10" \in tol -> Val(Abs)
    [] OTHER -> Err                            \* floats are never coerced
DecTextAs(tol, it, kind) ==
  CASE it.t = "none" -> Val(Abs)
    [] it.t = "tstr" -> IF it.indef \/ ~it.utf8 THEN Err
                        ELSE IF kind = "text" THEN Val(WithH(Text(it.s), it.h))
                        ELSE IF kind = "str" THEN Val(WithH(Str(it.n, it.b0), it.h))
                        ELSE Val(Prof(it.str))
    [] it.t = "tag"  -> Open
    [] IsNullish(it) /\ "D10" \in tol -> Val(Abs)
    [] OTHER -> Err
\* profile 2 carries the nonce as an EAT nonce: a byte string, or an array of byte strings
\* (a one-element array is left open by the specification)
DecNonces(tol, it) ==
  CASE it.t = "arr" -> IF it.indef THEN Err
                       ELSE LET ds == [i \in 1..Len(it.items) |-> DecBytes(tol \ {"D10"}, it.items[i])] IN
                            IF \E i \in 1..Len(ds) : ds[i].r = "err" \/ it.items[i].t = "none" THEN Err
                            ELSE IF it.n = 1 \/ \E i \in 1..Len(ds) : ds[i].r = "open" THEN Open
                            ELSE Val(Nonces([i \in 1..Len(ds) |-> ds[i].v]))
    [] it.t = "bstr" -> LET d == DecBytes(tol, it) IN IF d.r = "val" THEN Val(Nonces(<<d.v>>)) ELSE d
    [] it.t = "none" -> Val(Abs)
    [] it.t = "tag"  -> Open
    [] IsNullish(it) /\ "D10" \in tol -> Val(Abs)
    [] OTHER -> Err
\* the profile-2 profile claim is an absolute URI (text) or an OID (byte string); only the text
\* form is modelled, a byte string is left open
DecProfile(tol, p, it) == IF p = "P2" /\ it.t = "bstr" THEN Open ELSE DecTextAs(tol, it, "prof")
DecCompField(tol, f, it) == IF f \in {"mv", "sid"} THEN DecBytes(tol, it) ELSE DecTextAs(tol, it, "str")
CompKeySet == {CompKeys[f] : f \in CompFields}
DecComp(tol, it) ==
  IF it.t # "map" \/ it.indef THEN (IF it.t = "tag" THEN Open ELSE Err)
  ELSE IF DupKeys(it) \/ ~KeySpaceOK(it) THEN Open
  ELSE IF "D11" \in tol /\ TextAlias(it, CompKeySet) THEN Open
  ELSE LET d == [f \in CompFields |-> DecCompField(tol, f, Lookup(it, CompKeys[f]))] IN
       IF \E f \in CompFields : d[f].r = "err" THEN Err
       ELSE IF \E f \in CompFields : d[f].r = "open" THEN Open
       ELSE Val(Comp(d["mt"].v, d["mv"].v, d["ver"].v, d["sid"].v, d["desc"].v))
SwR(r, l) == [r |-> r, v |-> SwV(l)]
DecSw(tol, it) ==
  CASE it.t = "none" -> SwR("val", <<>>)
    [] it.t = "arr" -> IF it.indef THEN SwR("err", <<>>)
                       ELSE LET ds == [i \in 1..Len(it.items) |-> DecComp(tol, it.items[i])] IN
                            IF \E i \in 1..Len(ds) : ds[i].r = "err" THEN SwR("err", <<>>)
                            ELSE IF \E i \in 1..Len(ds) : ds[i].r = "open" THEN SwR("open", <<>>)
                            ELSE SwR("val", [i \in 1..Len(ds) |-> ds[i].v])
    [] it.t = "tag" -> SwR("open", <<>>)
    [] IsNullish(it) /\ "D10" \in tol -> SwR("val", <<>>)
    [] OTHER -> SwR("err", <<>>)
DecClaim(tol, p, c, it) ==
  CASE c \in {"implId", "bootSeed", "instId"} -> DecBytes(tol, it)
    [] c = "nonce"     -> IF p = "P1" THEN DecBytes(tol, it) ELSE DecNonces(tol, it)
    [] c = "clientId"  -> DecInt(tol, it, {"u16", "i32"}, TRUE)
    [] c = "lifecycle" -> DecInt(tol, it, {"u16"}, FALSE)
    [] c = "noSw"      -> LET d == DecInt(tol, it, {"u16", "i32", "u32", "u64"}, FALSE) IN
                          IF d.r = "val" /\ Present(d.v) /\ ~(it.w = "u16" /\ it.v = 1) THEN Open ELSE d   \* a flag other than 1: open
    [] c = "certRef"   -> DecTextAs(tol, it, "text")
    [] c = "vsi"       -> DecTextAs(tol, it, "str")
    [] c = "profile"   -> DecProfile(tol, p, it)
    [] c = "sw"        -> DecSw(tol, it)

\* ---------- a whole token (the root item) into a claims-set of profile p validating against canon ----------
\* r: "ok" | "err" | "open";  unknown keys are ignored, key order is irrelevant
ClaimKeySet(p) == {KeyOf(p, c) : c \in WireClaims(p)}
DecodeTok(tol, p, canon, tok) ==
  IF tok.t # "map" \/ tok.indef THEN [r |-> IF tok.t = "tag" THEN "open" ELSE "err", o |-> Blank(p, canon)]
  ELSE IF DupKeys(tok) \/ ~KeySpaceOK(tok) THEN [r |-> "open", o |-> Blank(p, canon)]
  ELSE IF "D11" \in tol /\ TextAlias(tok, ClaimKeySet(p) \cup {265}) THEN [r |-> "open", o |-> Blank(p, canon)]
  ELSE LET d == [c \in WireClaims(p) |-> DecClaim(tol, p, c, Lookup(tok, KeyOf(p, c)))] IN
       IF \E c \in WireClaims(p) : d[c].r = "err" THEN [r |-> "err", o |-> Blank(p, canon)]
       ELSE IF \E c \in WireClaims(p) : d[c].r = "open" THEN [r |-> "open", o |-> Blank(p, canon)]
       ELSE [r |-> "ok", o |-> [c \in DOMAIN Blank(p, canon) |->
                                  IF c \in WireClaims(p) THEN d[c].v ELSE Blank(p, canon)[c]]]
\* any indefinite-length item anywhere below the root makes the token undecodable
RECURSIVE AnyIndef(_)
AnyIndef(it) == it.indef \/ (\E i \in 1..Len(it.items) : AnyIndef(it.items[i]))
                         \/ (\E i \in 1..Len(it.pairs) : AnyIndef(it.pairs[i].k) \/ AnyIndef(it.pairs[i].it))

\* ---------- the value -> item relation (C10 / C09) ----------
ScalarIs(it, v) ==        \* item it carries exactly the scalar value v, with the profile's CBOR type
  CASE v.k = "bytes" -> it.t = "bstr" /\ ~it.indef /\ it.n = v.n /\ it.h = v.h
    [] v.k = "int"   -> IF v.v >= 0 THEN it.t = "uint" /\ it.v = v.v /\ it.w \in {"u16", "i32"}
                        ELSE it.t = "nint" /\ it.v = v.v /\ it.w = "i32"
    [] v.k = "text"  -> it.t = "tstr" /\ ~it.indef /\ it.h = v.h
    [] v.k = "str"   -> it.t = "tstr" /\ ~it.indef /\ it.h = v.h /\ it.n = v.n
    [] v.k = "prof"  -> it.t = "tstr" /\ ~it.indef /\ it.str = v.s[1]
    [] OTHER -> FALSE
ItemIs(it, v) ==
  IF v.k = "nonces"
  THEN IF v.n = 1 THEN ScalarIs(it, v.s[1])                            \* a single nonce is a bare byte string
       ELSE it.t = "arr" /\ ~it.indef /\ Len(it.items) = v.n /\ \A i \in 1..v.n : ScalarIs(it.items[i], v.s[i])
  ELSE ScalarIs(it, v)
IntKeys(m) == [i \in 1..Len(m.pairs) |-> IF IsIntKey(m.pairs[i].k) THEN m.pairs[i].k.v ELSE 0]
AllIntKeys(m) == \A i \in 1..Len(m.pairs) : IsIntKey(m.pairs[i].k)
KeySet(m) == {IntKeys(m)[i] : i \in 1..Len(m.pairs)}
CompItemIs(it, c) ==
  /\ it.t = "map" /\ ~it.indef /\ AllIntKeys(it) /\ ~DupKeys(it)
  /\ KeySet(it) = {CompKeys[f] : f \in {g \in CompFields : Present(c[g])}}
  /\ \A f \in CompFields : Present(c[f]) => ItemIs(Lookup(it, CompKeys[f]), c[f])
SwItemIs(it, l) == /\ it.t = "arr" /\ ~it.indef /\ Len(it.items) = Len(l)
                   /\ \A i \in 1..Len(l) : ~l[i].nul /\ CompItemIs(it.items[i], l[i])
\* claims that must appear on the wire for object o
Emitted(o) == {c \in WireClaims(o.p) : IF c = "sw" THEN (o.p = "P2" \/ Len(o.sw.l) > 0) ELSE Present(o[c])}
\* C10: tok is exactly the profile's wire format of the (valid) claims-set o
\* (extra: keys an extension profile adds to the base profile's claims; {} for the built-in profiles)
WireFormatOKx(o, tok, extra) ==
  /\ tok.t = "map" /\ ~tok.indef /\ ~AnyIndef(tok)              \* a single definite-length map
  /\ AllIntKeys(tok) /\ ~DupKeys(tok)
  /\ KeySet(tok) \ extra = {KeyOf(o.p, c) : c \in Emitted(o)}      \* precisely the keys of the claims that are set
  /\ \A c \in Emitted(o) : LET it == Lookup(tok, KeyOf(o.p, c)) IN
        IF c = "sw" THEN SwItemIs(it, o.sw.l) ELSE ItemIs(it, o[c])   \* right type, exact value, never null
  /\ (o.p = "P1" => ~({KeysP1["sw"], KeysP1["noSw"]} \subseteq KeySet(tok)))      \* never list and flag
WireFormatOK(o, tok) == WireFormatOKx(o, tok, {})

\* ---------- the encoder: a claims-set to its token (struct order, absent claims omitted, profile 1 drops an empty list) ----------
Uint(v) == [NoneItem EXCEPT !.t = "uint", !.v = v, !.w = IF v <= 65535 THEN "u16" ELSE "i32"]
Nint(v) == [NoneItem EXCEPT !.t = "nint", !.v = v, !.w = "i32"]
IntItem(v) == IF v >= 0 THEN Uint(v) ELSE Nint(v)
ItemOf(v) ==
  CASE v.k = "bytes" -> [NoneItem EXCEPT !.t = "bstr", !.n = v.n, !.b0 = v.b0, !.h = v.h]
    [] v.k = "int"   -> IntItem(v.v)
    [] v.k = "text"  -> [NoneItem EXCEPT !.t = "tstr", !.n = v.n, !.nr = v.n, !.s = v.s, !.h = v.h]
    [] v.k = "str"   -> [NoneItem EXCEPT !.t = "tstr", !.n = v.n, !.nr = v.n, !.b0 = v.b0, !.h = v.h]
    [] v.k = "prof"  -> [NoneItem EXCEPT !.t = "tstr", !.str = v.s[1]]
    [] v.k = "nonces"-> IF v.n = 1 THEN [NoneItem EXCEPT !.t = "bstr", !.n = v.s[1].n, !.b0 = v.s[1].b0, !.h = v.s[1].h]
                        ELSE [NoneItem EXCEPT !.t = "arr", !.n = v.n,
                                              !.items = [i \in 1..v.n |-> [NoneItem EXCEPT !.t = "bstr", !.n = v.s[i].n, !.b0 = v.s[i].b0, !.h = v.s[i].h]]]
Pair(kv, it) == [k |-> IntItem(kv), it |-> it]
CompItem(c) == LET fs == SelectSeq(CompOrder, LAMBDA f : Present(c[f])) IN
               [NoneItem EXCEPT !.t = "map", !.n = Len(fs), !.pairs = [i \in 1..Len(fs) |-> Pair(CompKeys[fs[i]], ItemOf(c[fs[i]]))]]
SwItem(l) == [NoneItem EXCEPT !.t = "arr", !.n = Len(l), !.items = [i \in 1..Len(l) |-> CompItem(l[i])]]
EncodeTok(ob) == LET cs == SelectSeq(EmitOrder(ob.p), LAMBDA c : c \in Emitted(ob)) IN
                 [NoneItem EXCEPT !.t = "map", !.n = Len(cs),
                                  !.pairs = [i \in 1..Len(cs) |-> Pair(KeyOf(ob.p, cs[i]), IF cs[i] = "sw" THEN SwItem(ob.sw.l) ELSE ItemOf(ob[cs[i]]))]]

NoEntry == [p |-> "P1", canon |-> P1Name, impl |-> "none", tag |-> ""]
DErr  == [r |-> "err", e |-> NoEntry]
DOpen == [r |-> "open", e |-> NoEntry]

\* ---------- the JSON form (C12): documented member names, base64 for byte strings, absent optional claims omitted ----------
JsonNames(p) == [profile |-> IF p = "P1" THEN "psa-profile" ELSE "eat-profile", clientId |-> "psa-client-id",
                 lifecycle |-> "psa-security-lifecycle", implId |-> "psa-implementation-id", bootSeed |-> "psa-boot-seed",
                 certRef |-> IF p = "P1" THEN "psa-hwver" ELSE "psa-certification-reference", sw |-> "psa-software-components",
                 noSw |-> "psa-no-software-measurements", nonce |-> "psa-nonce", instId |-> "psa-instance-id",
                 vsi |-> "psa-verification-service-indicator"]
CompJsonNames == [mt |-> "measurement-type", mv |-> "measurement-value", ver |-> "version", sid |-> "signer-id",
                  desc |-> "measurement-description"]
\* doc: [name, t, v, b64, hb, hs, n, str, arr, obj] as reported by a generic JSON parser
Members(d) == {d.obj[i].name : i \in 1..Len(d.obj)}
Member(d, nm) == d.obj[CHOOSE i \in 1..Len(d.obj) : d.obj[i].name = nm]
JScalarIs(m, v) ==
  CASE v.k = "bytes" -> m.t = "string" /\ m.b64 /\ m.hb = v.h /\ m.n = v.n          \* base64 of the value
    [] v.k = "int"   -> m.t = "number" /\ m.v = v.v
    [] v.k \in {"text", "str"} -> m.t = "string" /\ m.hs = v.h
    [] v.k = "prof"  -> m.t = "string" /\ m.str = v.s[1]
    [] OTHER -> FALSE
JValueIs(m, v) == IF v.k = "nonces"
                  THEN IF v.n = 1 THEN JScalarIs(m, v.s[1])
                       ELSE m.t = "array" /\ Len(m.arr) = v.n /\ \A i \in 1..v.n : JScalarIs(m.arr[i], v.s[i])
                  ELSE JScalarIs(m, v)
JCompIs(m, c) == /\ m.t = "object"
                 /\ Members(m) = {CompJsonNames[f] : f \in {g \in CompFields : Present(c[g])}}
                 /\ \A f \in CompFields : Present(c[f]) => JScalarIs(Member(m, CompJsonNames[f]), c[f])
JSwIs(m, l) == m.t = "array" /\ Len(m.arr) = Len(l) /\ \A i \in 1..Len(l) : ~l[i].nul /\ JCompIs(m.arr[i], l[i])
JsonFormatOKx(o, d, extra) ==
  /\ d.t = "object"
  /\ Members(d) \ extra = {JsonNames(o.p)[c] : c \in Emitted(o)}
  /\ \A c \in Emitted(o) : LET m == Member(d, JsonNames(o.p)[c]) IN
        IF c = "sw" THEN JSwIs(m, o.sw.l) ELSE JValueIs(m, o[c])
JsonFormatOK(o, d) == JsonFormatOKx(o, d, {})

\* ---------- profile dispatch of the JSON decoder: the member named by a registered profile's tag ----------
\* reg entries carry tag = the JSON member name of the implementation's profile field.
\* Exactly one registered implementation whose tag member holds its own name => that one; several
\* different => error; none but some non-null profile member present => error; no profile member at
\* all (or only null) => the default entry (profile 1).  Independent of the register's iteration order.
JStr(d, nm) == IF nm \in Members(d) THEN Member(d, nm) ELSE [t |-> "absent", str |-> ""]
DispatchJSON(reg, d) ==
  IF d.t # "object" THEN DErr
  ELSE LET names == DOMAIN reg \ {""}
           matching == {reg[n].impl : n \in {m \in names : JStr(d, reg[m].tag).t = "string" /\ JStr(d, reg[m].tag).str = m}}
           anyMember == \E n \in DOMAIN reg : JStr(d, reg[n].tag).t \notin {"absent", "null"}
       IN IF Cardinality(matching) = 1
          THEN [r |-> "ok", e |-> reg[CHOOSE n \in names : reg[n].impl \in matching /\ JStr(d, reg[n].tag).str = n]]
          ELSE IF Cardinality(matching) > 1 THEN DErr
          ELSE IF anyMember THEN DErr
          ELSE [r |-> "ok", e |-> reg[""]]

\* ---------- profile dispatch of the CBOR decoder: selector on key 265, "" = the default entry ----------
\* reg: profile name -> [p |-> rule set, canon |-> canonical name, impl |-> implementation name]
BaseReg == [n \in {"", P1Name, P2Name} |-> IF n = P2Name THEN [p |-> "P2", canon |-> P2Name, impl |-> "P2", tag |-> "eat-profile"]
                                                           ELSE [p |-> "P1", canon |-> P1Name, impl |-> "P1", tag |-> "psa-profile"]]
DispatchCBOR(reg, tok) ==
  IF tok.t # "map" \/ tok.indef THEN (IF tok.t = "tag" THEN DOpen ELSE DErr)
  ELSE IF Cardinality(Entries(tok, 265)) > 1 \/ ~KeySpaceOK(tok) THEN DOpen
  ELSE LET sel == Lookup(tok, 265) IN
       CASE sel.t = "none" -> [r |-> "ok", e |-> reg[""]]                 \* no profile claim: profile 1
         [] sel.t = "tstr" -> IF sel.indef \/ ~sel.utf8 THEN DErr
                              ELSE IF sel.str = "" THEN DOpen               \* an empty profile claim
                              ELSE IF sel.str \in DOMAIN reg
                                   THEN (IF reg[sel.str].p = "P1" THEN DOpen    \* a profile-1 name under key 265
                                         ELSE [r |-> "ok", e |-> reg[sel.str]])
                                   ELSE DErr                                \* unregistered profile
         [] sel.t \in {"null", "undef", "tag"} -> DOpen
         [] OTHER -> DErr
\* ---------- C04: the verdict of decode-and-validate on a token under implementation (p, canon) ----------
\* d = DecodeTok(tol, p, canon, tok)
VerdictOf(tok, d) ==
  IF tok.t = "map" /\ AnyIndef(tok) THEN "reject"
  ELSE IF d.r = "err" THEN "reject" ELSE IF d.r = "open" THEN "open"
  ELSE IF Valid(d.o) THEN "accept" ELSE "reject"
TokVerdict(tol, p, canon, tok) == VerdictOf(tok, DecodeTok(tol, p, canon, tok))
\* the verdict of the dispatching decode-and-validate
Accept(tol, reg, tok) == LET d == DispatchCBOR(reg, tok) IN
                         IF d.r = "err" THEN "reject" ELSE IF d.r = "open" THEN "open" ELSE TokVerdict(tol, d.e.p, d.e.canon, tok)
====
