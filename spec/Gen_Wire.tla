---- MODULE Gen_Wire ----
(***************************************************************************)
(* gen step for the wire family (C04, C07, C09, C10): per claim key the    *)
(* classes of CBOR items a token may carry there - absent, null, each      *)
(* boundary class of the right type, each wrong major type, out-of-width   *)
(* integers, floats, nested / tagged / indefinite forms - as descriptors   *)
(* the harness's independent encoder turns into bytes.  The harness        *)
(* enumerates singles, pairs and random combinations over base tokens,     *)
(* permutes key order and adds unknown keys.  No expected verdict is       *)
(* exported: the judge computes it from the parse of the bytes that were   *)
(* actually fed to the library.                                            *)
(***************************************************************************)
EXTENDS PsaWire, Json, IOUtils
\* descriptor: d kind, n length / count, b0 first-byte class / char class, v value, s shape / name / sub-descriptors
D(d, n, b0, v, s) == [d |-> d, n |-> n, b0 |-> b0, v |-> v, s |-> s]
DNone == D("none", 0, 0, 0, <<>>)
DNull == D("null", 0, 0, 0, <<>>)
DUndef == D("undef", 0, 0, 0, <<>>)
DBool == D("bool", 0, 0, 1, <<>>)
DBstr(n, b0) == D("bstr", n, b0, 0, <<>>)
DTstrShape(s) == D("tstrShape", Len(s), 0, 0, s)
DTstrLen(n, cls) == D("tstrLen", n, cls, 0, <<>>)
DTstrName(nm) == D("tstrName", 0, 0, 0, <<nm>>)
DTstrBadUtf8 == D("tstrBadUtf8", 3, 0, 0, <<>>)
DInt(v) == D("int", 0, 0, v, <<>>)                      \* any integer in the 32-bit signed range
DWide(w) == D("wide", 0, 0, 0, <<w>>)                   \* "u31" 2^31, "u32max" 2^32-1, "u32" 2^32, "u64max", "n33" -2^31-1, "n64min" -2^64
DFloat(kind, v) == D("float", 0, 0, v, <<kind>>)        \* "integral" (the value v as a float), "frac" (v + 0.5), "nan", "inf", "half", "single"
DArrU8(n) == D("arrU8", n, 0, 0, <<>>)                  \* an array of n small unsigned integers
DArr(items) == D("arr", Len(items), 0, 0, items)
DMapEmpty == D("mapEmpty", 0, 0, 0, <<>>)
DTag(t, inner) == D("tag", 0, 0, t, <<inner>>)
DIndefBstr(n) == D("indefBstr", n, 0, 0, <<>>)
DIndefTstr(n) == D("indefTstr", n, 0, 0, <<>>)
DIndefArr(items) == D("indefArr", Len(items), 0, 0, items)
\* component descriptor: a sequence of [k |-> key descriptor, it |-> item descriptor]; keys may be anything
DComp(pairs) == D("comp", Len(pairs), 0, 0, pairs)
DIndefComp(pairs) == D("indefComp", Len(pairs), 0, 0, pairs)
KV(k, it) == [k |-> k, it |-> it]
OkComp == DComp(<<KV(DInt(2), DBstr(32, 2)), KV(DInt(5), DBstr(32, 2))>>)
FullComp == DComp(<<KV(DInt(1), DTstrLen(2, 0)), KV(DInt(2), DBstr(48, 2)), KV(DInt(4), DTstrLen(5, 1)), KV(DInt(5), DBstr(64, 2)), KV(DInt(6), DTstrLen(8, 2))>>)
\* a component with one field deviating
CompWith(k, it) == DComp(<<KV(DInt(2), IF k = 2 THEN it ELSE DBstr(32, 2)), KV(DInt(5), IF k = 5 THEN it ELSE DBstr(32, 2))>>
                         \o (IF k \in {2, 5} THEN <<>> ELSE <<KV(DInt(k), it)>>))
WrongForBytes == {DNull, DUndef, DTstrLen(32, 0), DInt(7), DInt(-1), DArrU8(32), DFloat("integral", 1), DBool, DMapEmpty,
                  DTag(1, DBstr(32, 2)), DIndefBstr(32)}
WrongForText == {DNull, DUndef, DBstr(19, 2), DInt(7), DArrU8(3), DFloat("frac", 1), DBool, DTstrBadUtf8, DTag(32, DTstrLen(4, 0)), DIndefTstr(19)}
BytesDom(lens) == {DBstr(n, 2) : n \in lens} \cup WrongForBytes
CompDom == {OkComp, FullComp}
           \cup {CompWith(2, it) : it \in {DBstr(31, 2), DBstr(65, 2), DNone, DNull, DArrU8(32), DTstrLen(32, 0), DIndefBstr(32)}}
           \cup {CompWith(5, it) : it \in {DBstr(0, 0), DBstr(48, 2), DNull, DInt(5)}}
           \cup {CompWith(1, it) : it \in {DTstrLen(0, 0), DTstrLen(3, 1), DNull, DBstr(2, 2), DInt(1), DTstrBadUtf8}}
           \cup {CompWith(4, it) : it \in {DTstrLen(5, 2), DArrU8(2)}} \cup {CompWith(6, it) : it \in {DTstrLen(300, 0), DUndef}}
           \cup {CompWith(3, DInt(9)), CompWith(7, DBstr(4, 2)), CompWith(-1, DTstrLen(1, 0))}       \* unknown component keys
           \cup {DComp(<<KV(DTstrName("2"), DBstr(32, 2)), KV(DInt(2), DBstr(32, 2)), KV(DInt(5), DBstr(32, 2))>>)}   \* a text key
           \cup {DIndefComp(<<KV(DInt(2), DBstr(32, 2)), KV(DInt(5), DBstr(32, 2))>>), DNull, DInt(3), DArr(<<>>), DMapEmpty, DBstr(4, 2),
                 DTag(24, OkComp)}
SwDom == {DNone, DNull, DArr(<<>>), DMapEmpty, DBstr(8, 2), DInt(1), DTag(1, DArr(<<OkComp>>)), DIndefArr(<<OkComp>>)}
         \cup {DArr(<<c>>) : c \in CompDom} \cup {DArr(<<OkComp, c>>) : c \in CompDom} \cup {DArr(<<FullComp, OkComp, OkComp, FullComp>>)}
ItemDom(p, c) ==
  CASE c = "implId"    -> {DNone} \cup BytesDom({0, 31, 32, 33})
    [] c = "instId"    -> {DNone, DBstr(33, 1), DBstr(33, 0), DBstr(33, 2), DBstr(32, 1), DBstr(34, 1)} \cup WrongForBytes
    [] c = "bootSeed"  -> {DNone} \cup BytesDom(IF p = "P1" THEN {31, 32, 33} ELSE {7, 8, 32, 33})
    [] c = "nonce"     -> {DNone} \cup BytesDom({31, 32, 48, 64, 65})
                          \cup (IF p = "P2" THEN {DArr(<<DBstr(32, 2)>>), DArr(<<DBstr(32, 2), DBstr(48, 2)>>), DArr(<<>>), DArr(<<DArrU8(32), DBstr(32, 2)>>),
                                                  DArr(<<DInt(1), DInt(2)>>), DArr(<<DBstr(32, 2), DNull>>)} ELSE {})
    [] c = "clientId"  -> {DNone, DNull, DInt(0), DInt(1), DInt(-1), DInt(2147483647), DInt(-2147483647 - 1), DWide("u31"), DWide("u32max"),
                           DWide("u32"), DWide("u64max"), DWide("n33"), DWide("n64min"), DFloat("integral", 1), DFloat("frac", 1), DFloat("half", 1),
                           DFloat("nan", 0), DBstr(4, 2), DTstrLen(1, 0), DBool, DArrU8(1), DTag(2, DBstr(1, 1))}
    [] c = "lifecycle" -> {DNone, DNull, DInt(0), DInt(255), DInt(256), DInt(12288), DInt(24831), DInt(24832), DInt(65535), DInt(65536), DInt(77824),
                           DInt(-1), DInt(-12288), DWide("u32"), DWide("u64max"), DFloat("integral", 12288), DFloat("single", 12288), DFloat("frac", 12288),
                           DBstr(2, 2), DTstrLen(5, 0), DBool}
    [] c = "noSw"      -> IF p = "P1" THEN {DNone, DInt(1), DInt(0), DInt(2), DWide("u32"), DInt(-1), DNull, DBool, DTstrLen(1, 0), DFloat("integral", 1)} ELSE {DNone}
    [] c = "certRef"   -> {DNone, DTstrShape(EAN13), DTstrShape(EAN13p5), DTstrShape(Rep(12, "D")), DTstrShape(EAN13p5 \o <<"X">>), DTstrShape(<<>>),
                           DTstrShape(<<"X">> \o EAN13)} \cup WrongForText
    [] c = "vsi"       -> {DNone, DTstrLen(0, 0), DTstrLen(1, 0), DTstrLen(46, 0), DTstrLen(9, 1), DTstrLen(9, 2), DTstrLen(300, 0)} \cup WrongForText
    [] c = "profile"   -> IF p = "P1" THEN {DNone, DTstrName(P1Name), DTstrName(P2Name), DTstrName("http://UNKNOWN"), DTstrName(""), DNull, DInt(1), DBstr(17, 2)}
                                      ELSE {DTstrName(P2Name)}
    [] c = "sw"        -> SwDom
\* what may stand under key 265 (the dispatch selector), beside the declared profile itself
SelectorDom == {DNone, DTstrName(P1Name), DTstrName(P2Name), DTstrName("http://UNKNOWN"),
                \* names that differ from a registered one only by what a URI normalisation would hide
                DTstrName("HTTP://arm.com/psa/2.0.0"), DTstrName("Http://arm.com/psa/2.0.0"), DTstrName("http://arm.com/psa/2.0.0#"),
                DTstrName("http://arm.com/psa/2.0.0?"), DTstrName("http://arm.com/psa/2.0.0/"), DTstrName("http://ARM.com/psa/2.0.0"),
                DTstrName("http://arm.com:80/psa/2.0.0"), DTstrName("psa_iot_profile_1"), DTstrName(" http://arm.com/psa/2.0.0"), DTstrName("http://example.com/x2"), DTstrName(""), DNull, DUndef,
                DInt(2), DBstr(3, 2), DTstrBadUtf8, DTag(32, DTstrName(P2Name)), DArr(<<>>), DIndefTstr(24)}
\* unknown extra entries (key descriptor, value descriptor)
Extras == {KV(DInt(0), DInt(0)), KV(DInt(-1), DNull), KV(DInt(11), DBstr(3, 2)), KV(DInt(2401), DArr(<<DInt(1), DArr(<<>>)>>)), KV(DInt(-75011), DMapEmpty),
           KV(DWide("u32"), DInt(1)), KV(DWide("n33"), DInt(1)), KV(DWide("u63"), DInt(1)), KV(DWide("u64max"), DBstr(3, 2)), KV(DTstrName("psa-nonce"), DBstr(32, 2)), KV(DTstrName("Nonce"), DBstr(32, 2)),
           KV(DTstrName("-75008"), DBstr(32, 2)), KV(DTstrName("10"), DBstr(32, 2)), KV(DBstr(2, 2), DInt(1)), KV(DFloat("integral", 10), DBstr(32, 2)),
           KV(DBool, DBool), KV(DInt(2402), DTag(0, DTstrLen(20, 0))), KV(DInt(9), DFloat("nan", 0)), KV(DArr(<<>>), DInt(1)), KV(DNull, DNull)}
Doc == [dom |-> [p \in {"P1", "P2"} |-> [c \in Claims |-> ItemDom(p, c)]], selector |-> SelectorDom, extras |-> Extras,
        keys |-> [P1 |-> KeysP1, P2 |-> KeysP2], order |-> [P1 |-> EmitOrder("P1"), P2 |-> EmitOrder("P2")]]
ASSUME JsonSerialize(IOEnv.OUT, Doc)
VARIABLE dummy
GInit == dummy = 0
GNext == UNCHANGED dummy
====
