---- MODULE PsaEvidence ----
(***************************************************************************)
(* The Evidence object: attached claims + the last COSE_Sign1 envelope,    *)
(* with symbolic signatures (perfect cryptography; the real arithmetic is  *)
(* exercised by the conformance runs).                                     *)
(*                                                                         *)
(*   claims   id of the attached claims-set, or "nil"                      *)
(*   msg      the envelope: [st, payload, alg, sig]                        *)
(*            st "none" (no message object) | "some"                       *)
(*            payload  claims id | "garbage" (bytes that are no claims     *)
(*                     map) | "nil"                                        *)
(*            alg      algorithm in the protected header | "none" |        *)
(*                     "unsupported"                                       *)
(*            sig      NoSig | Junk | Sig(k, a, p): a valid signature by   *)
(*                     key k over (protected header with a, payload p)     *)
(*   replaced ghost: the claims were replaced since the last sign/decode   *)
(*   signed   ghost: the signatures honest signers have produced so far    *)
(*                                                                         *)
(* Multi-step calls are written as the sub-steps the code takes (reset the *)
(* envelope; [validate]; encode; set alg; sign; marshal) so that a stale   *)
(* envelope / stale claims design is expressible and excluded.             *)
(***************************************************************************)
EXTENDS Integers, Sequences, FiniteSets
\* (the @type comments are for Apalache, which checks the inductive invariant IndInv below; TLC ignores them)
CONSTANTS
  \* @type: Set(Str);
  Keys,
  \* @type: Set(Str);
  Algs,
  \* @type: Set(Str);
  ClaimIds,
  \* @type: Set(Str);
  InvalidIds

NoSig == [k |-> "none", a |-> "none", p |-> "nil"]
Junk  == [k |-> "junk", a |-> "none", p |-> "nil"]
Sig(k, a, p) == [k |-> k, a |-> a, p |-> p]
NoMsg == [st |-> "none", payload |-> "nil", alg |-> "none", sig |-> NoSig]
FreshMsg == [NoMsg EXCEPT !.st = "some"]                   \* cose.NewSign1Message()
\* @type: (Str, { st: Str, payload: Str, alg: Str, sig: { k: Str, a: Str, p: Str } }, Bool) => { claims: Str, msg: { st: Str, payload: Str, alg: Str, sig: { k: Str, a: Str, p: Str } }, replaced: Bool };
EvState(c, m, r) == [claims |-> c, msg |-> m, replaced |-> r]
EvInit == EvState("nil", NoMsg, FALSE)
Payloads == ClaimIds \cup {"garbage", "nil"}
Decodable(p) == p \in ClaimIds
ValidClaims(c) == c \in ClaimIds \ InvalidIds

\* signers: kind "good" signs properly with key k; "err" returns an error; "empty" returns no bytes;
\* "junk" returns arbitrary bytes; all of them announce algorithm a ("unsupported" = one go-cose cannot verify)
Signers == [kind : {"good"}, k : Keys, a : Algs] \cup [kind : {"err", "empty", "junk"}, k : {"none"}, a : Algs]
           \cup [kind : {"junk"}, k : {"none"}, a : {"unsupported"}]
\* tokens that may be presented for decoding: a constant universe
\* an honest key may also have signed bytes that are no claims map (another application, an unknown profile):
\* such "foreign" signatures exist from the start and are at the adversary's disposal
ForeignSigs == {Sig(k, a, "garbage") : k \in Keys, a \in Algs}
AllSigs == {NoSig, Junk} \cup {Sig(k, a, p) : k \in Keys, a \in Algs, p \in ClaimIds} \cup ForeignSigs
TokenUniverse == [wf : BOOLEAN, payload : Payloads, alg : Algs \cup {"none", "unsupported"}, sig : AllSigs]

\* @type: (Bool, { st: Str, payload: Str, alg: Str, sig: { k: Str, a: Str, p: Str } }) => { ok: Bool, tok: { st: Str, payload: Str, alg: Str, sig: { k: Str, a: Str, p: Str } } };
Res(ok, tok) == [ok |-> ok, tok |-> tok]       \* tok: a token (envelope record) was returned, or NoMsg
\* ---------- step functions: (state, args) -> [post, ret] ----------
\* @type: ({ claims: Str, msg: { st: Str, payload: Str, alg: Str, sig: { k: Str, a: Str, p: Str } }, replaced: Bool }, Str) => { post: { claims: Str, msg: { st: Str, payload: Str, alg: Str, sig: { k: Str, a: Str, p: Str } }, replaced: Bool }, ret: { ok: Bool, tok: { st: Str, payload: Str, alg: Str, sig: { k: Str, a: Str, p: Str } } } };
SetClaimsF(s, c) == IF ValidClaims(c) THEN [post |-> EvState(c, s.msg, TRUE), ret |-> Res(TRUE, NoMsg)]
                    ELSE [post |-> s, ret |-> Res(FALSE, NoMsg)]
\* the unchecked e.Claims = c (public field)
\* @type: ({ claims: Str, msg: { st: Str, payload: Str, alg: Str, sig: { k: Str, a: Str, p: Str } }, replaced: Bool }, Str) => { post: { claims: Str, msg: { st: Str, payload: Str, alg: Str, sig: { k: Str, a: Str, p: Str } }, replaced: Bool }, ret: { ok: Bool, tok: { st: Str, payload: Str, alg: Str, sig: { k: Str, a: Str, p: Str } } } };
AttachF(s, c) == [post |-> EvState(c, s.msg, TRUE), ret |-> Res(TRUE, NoMsg)]
\* Sign / ValidateAndSign: reset envelope -> [validate] -> encode -> set alg -> sign -> marshal
\* @type: ({ claims: Str, msg: { st: Str, payload: Str, alg: Str, sig: { k: Str, a: Str, p: Str } }, replaced: Bool }, { kind: Str, k: Str, a: Str }, Bool) => { post: { claims: Str, msg: { st: Str, payload: Str, alg: Str, sig: { k: Str, a: Str, p: Str } }, replaced: Bool }, ret: { ok: Bool, tok: { st: Str, payload: Str, alg: Str, sig: { k: Str, a: Str, p: Str } } } };
\* With no claims attached the non-validating Sign encodes "no claims" as CBOR null and signs that: the token carries a
\* payload that is no claims map ("garbage").  ValidateAndSign without claims is outside the model (the library
\* dereferences the nil claims after resetting the envelope); ENext does not take that step.
SignF(s, sg, validate) ==
  IF validate /\ ~ValidClaims(s.claims)                   \* (in particular: no claims)
  THEN [post |-> EvState(s.claims, FreshMsg, FALSE), ret |-> Res(FALSE, NoMsg)]
  ELSE LET p  == IF s.claims = "nil" THEN "garbage" ELSE s.claims
           m1 == [FreshMsg EXCEPT !.payload = p, !.alg = sg.a] IN
       CASE sg.kind = "err"   -> [post |-> EvState(s.claims, m1, FALSE), ret |-> Res(FALSE, NoMsg)]
         [] sg.kind = "empty" -> [post |-> EvState(s.claims, m1, FALSE), ret |-> Res(FALSE, NoMsg)]   \* marshal refuses an empty signature
         [] sg.kind = "junk"  -> LET m2 == [m1 EXCEPT !.sig = Junk] IN [post |-> EvState(s.claims, m2, FALSE), ret |-> Res(TRUE, m2)]
         [] sg.kind = "good"  -> LET m2 == [m1 EXCEPT !.sig = Sig(sg.k, sg.a, p)] IN
                                 [post |-> EvState(s.claims, m2, FALSE), ret |-> Res(TRUE, m2)]
\* UnmarshalCOSE: reset envelope; envelope decode (message replaced only on success); claims := decode(payload), nil on error
\* @type: ({ claims: Str, msg: { st: Str, payload: Str, alg: Str, sig: { k: Str, a: Str, p: Str } }, replaced: Bool }, { wf: Bool, payload: Str, alg: Str, sig: { k: Str, a: Str, p: Str } }) => { post: { claims: Str, msg: { st: Str, payload: Str, alg: Str, sig: { k: Str, a: Str, p: Str } }, replaced: Bool }, ret: { ok: Bool, tok: { st: Str, payload: Str, alg: Str, sig: { k: Str, a: Str, p: Str } } } };
UnmarshalF(s, t) ==
  IF ~t.wf \/ t.sig = NoSig
  THEN [post |-> EvState(s.claims, FreshMsg, s.replaced), ret |-> Res(FALSE, NoMsg)]
  ELSE LET m == [st |-> "some", payload |-> t.payload, alg |-> t.alg, sig |-> t.sig] IN
       IF Decodable(t.payload) THEN [post |-> EvState(t.payload, m, FALSE), ret |-> Res(TRUE, NoMsg)]
       ELSE [post |-> EvState("nil", m, FALSE), ret |-> Res(FALSE, NoMsg)]
\* Verify: message present; alg in the protected header; verifier for (alg, key); payload present;
\* signature non-empty; signature valid for exactly this key, header and payload
\* @type: ({ st: Str, payload: Str, alg: Str, sig: { k: Str, a: Str, p: Str } }, Str) => Bool;
VerifyOKm(m, k) == /\ m.st = "some" /\ m.alg \in Algs /\ m.payload # "nil"
                   /\ m.sig # NoSig /\ m.sig = Sig(k, m.alg, m.payload)
\* @type: ({ claims: Str, msg: { st: Str, payload: Str, alg: Str, sig: { k: Str, a: Str, p: Str } }, replaced: Bool }, Str) => { post: { claims: Str, msg: { st: Str, payload: Str, alg: Str, sig: { k: Str, a: Str, p: Str } }, replaced: Bool }, ret: { ok: Bool, tok: { st: Str, payload: Str, alg: Str, sig: { k: Str, a: Str, p: Str } } } };
VerifyF(s, k) == [post |-> s, ret |-> Res(VerifyOKm(s.msg, k), NoMsg)]

\* ---------- C20: what may decode as evidence (a necessary condition) ----------
\* env: the independent reader's view of the presented bytes
\* @type: ({ tag: Int, arrLen: Int, wf: Bool, sigLen: Int, trail: Int, payloadMap: Bool }) => Bool;
EnvelopeOK(env) == /\ env.tag = 18                 \* COSE_Sign1 tag (not Mac0 = 17, Sign = 98, none, ...)
                   /\ env.arrLen = 4               \* exactly four elements
                   /\ env.wf                       \* protected bstr, unprotected map, byte-string payload, bstr signature
                   /\ env.sigLen > 0               \* non-empty signature
                   /\ env.trail = 0                \* nothing after it
                   /\ env.payloadMap               \* the payload is itself a claims map

\* ================= the state machine =================
VARIABLES
  \* @type: { claims: Str, msg: { st: Str, payload: Str, alg: Str, sig: { k: Str, a: Str, p: Str } }, replaced: Bool };
  ev,
  \* @type: Set({ k: Str, a: Str, p: Str });
  signed,
  \* @type: { op: Str, ok: Bool, tok: { st: Str, payload: Str, alg: Str, sig: { k: Str, a: Str, p: Str } } };
  eret
evars == <<ev, signed, eret>>
\* @type: (Str, { ok: Bool, tok: { st: Str, payload: Str, alg: Str, sig: { k: Str, a: Str, p: Str } } }) => { op: Str, ok: Bool, tok: { st: Str, payload: Str, alg: Str, sig: { k: Str, a: Str, p: Str } } };
RetRec(op, r) == [op |-> op, ok |-> r.ok, tok |-> r.tok]
EInit == ev = EvInit /\ signed = ForeignSigs /\ eret = RetRec("init", Res(TRUE, NoMsg))
\* @type: (Str, { post: { claims: Str, msg: { st: Str, payload: Str, alg: Str, sig: { k: Str, a: Str, p: Str } }, replaced: Bool }, ret: { ok: Bool, tok: { st: Str, payload: Str, alg: Str, sig: { k: Str, a: Str, p: Str } } } }) => Bool;
Do(op, x) == ev' = x.post /\ eret' = RetRec(op, x.ret)
SetClaims(c) == Do("SetClaims", SetClaimsF(ev, c)) /\ UNCHANGED signed
Attach(c)    == Do("Attach", AttachF(ev, c)) /\ UNCHANGED signed
\* @type: ({ kind: Str, k: Str, a: Str }, Bool) => Bool;
SignWith(sg, validate) ==
  LET x == SignF(ev, sg, validate) IN
  /\ Do(IF validate THEN "ValidateAndSign" ELSE "Sign", x)
  /\ signed' = IF x.ret.ok /\ sg.kind = "good" THEN signed \cup {x.post.msg.sig} ELSE signed
\* the adversary presents any token it can build: signatures only of messages honest signers signed
\* @type: ({ wf: Bool, payload: Str, alg: Str, sig: { k: Str, a: Str, p: Str } }) => Bool;
Available(t) == t.sig \in {NoSig, Junk} \/ t.sig \in signed
\* @type: ({ wf: Bool, payload: Str, alg: Str, sig: { k: Str, a: Str, p: Str } }) => Bool;
Unmarshal(t) == Available(t) /\ Do("UnmarshalCOSE", UnmarshalF(ev, t)) /\ UNCHANGED signed
Verify(k)    == Do("Verify", VerifyF(ev, k)) /\ UNCHANGED signed
ENext == \/ \E c \in ClaimIds : SetClaims(c) \/ Attach(c)
         \/ \E sg \in Signers : SignWith(sg, FALSE) \/ (ev.claims # "nil" /\ SignWith(sg, TRUE))
         \/ \E t \in TokenUniverse : Unmarshal(t)
         \/ \E k \in Keys : Verify(k)
ESpec == EInit /\ [][ENext]_evars

\* ---------- properties (C19, C02, C03, C08 at design level) ----------
VerifyOK(k) == VerifyOKm(ev.msg, k)
\* whenever verification succeeds the attached claims are nil or the decoding of the covered payload
Binding == \A k \in Keys : VerifyOK(k) /\ ~ev.replaced => (ev.claims = "nil" \/ ev.claims = ev.msg.payload)
\* nothing verifies that an honest signer did not sign (tampering / wrong key never verifies)
NoForgery == \A k \in Keys : VerifyOK(k) => Sig(k, ev.msg.alg, ev.msg.payload) \in signed
\* a failed operation returns no token
FailedOpNoToken == ~eret.ok => eret.tok = NoMsg
\* after a failed signing attempt verification fails (until the next successful sign or decode)
FailedSignThenVerifyFails == (eret.op \in {"Sign", "ValidateAndSign"} /\ ~eret.ok) => \A k \in Keys : ~VerifyOK(k)
\* validating gates never pass an invalid claims-set
GateNeverPassesInvalid == /\ (eret.op = "ValidateAndSign" /\ eret.ok => ValidClaims(ev.claims))
                          /\ (eret.op = "SetClaims" /\ eret.ok => ValidClaims(ev.claims))
\* a returned token is the envelope now held, carries the signer's algorithm and the attached claims
TokenIsEnvelope == (eret.op \in {"Sign", "ValidateAndSign"} /\ eret.ok) =>
                      eret.tok = ev.msg /\ (ev.claims # "nil" => ev.msg.payload = ev.claims) /\ ev.msg.sig # NoSig
\* The four predicates above speak about what the last call returned (eret), which the bounded instances keep out
\* of their VIEW; TLC evaluates state invariants on new view-distinct states only, so they are checked as one
\* action property - every step ends in a state satisfying them - which TLC evaluates on every transition
PostConditions == FailedOpNoToken /\ FailedSignThenVerifyFails /\ GateNeverPassesInvalid /\ TokenIsEnvelope
EveryStepPost == [][PostConditions']_evars
\* a failed attempt does not prevent a later successful one: in every reachable state with claims attached
\* a good signer succeeds (Sign always, ValidateAndSign when the claims are valid) ...
GoodSignAlwaysSucceeds == ev.claims # "nil" =>
   \A sg \in Signers : sg.kind = "good" => /\ SignF(ev, sg, FALSE).ret.ok
                                           /\ (ValidClaims(ev.claims) => SignF(ev, sg, TRUE).ret.ok)
\* ... and what a good signer returns verifies under its key, on the signing Evidence itself
GoodSignVerifies == [][(eret'.op \in {"Sign", "ValidateAndSign"} /\ eret'.ok /\ eret'.tok.sig.k \in Keys)
                         => VerifyOKm(ev'.msg, eret'.tok.sig.k)]_evars
\* signing twice yields two independently valid tokens: decoding either verifies
TwoSignsTwoTokens == \A s \in signed : VerifyOKm([st |-> "some", payload |-> s.p, alg |-> s.a, sig |-> s], s.k)
EView == <<ev, signed>>

(***************************************************************************)
(* An inductive invariant, checked symbolically by Apalache for constants  *)
(* larger than TLC's exhaustive runs (3 keys x 7 algorithms x 4 claims):   *)
(*   EInit => IndInv      (apalache-mc check --init=EInit --inv=IndInv --length=0)                 *)
(*   IndInv /\ ENext => IndInv'   (--init=IndInv --inv=IndInv --length=1)                          *)
(* i.e. Binding, NoForgery and TwoSignsTwoTokens hold in every reachable   *)
(* state for those constants, whatever the history.                        *)
(***************************************************************************)
Msgs == [st : {"none", "some"}, payload : Payloads, alg : Algs \cup {"none", "unsupported"}, sig : AllSigs]
OpNames == {"init", "SetClaims", "Attach", "Sign", "ValidateAndSign", "UnmarshalCOSE", "Verify"}
TypeOK == /\ ev \in [claims : ClaimIds \cup {"nil"}, msg : Msgs, replaced : BOOLEAN]
          /\ signed \in SUBSET ({Sig(k, a, p) : k \in Keys, a \in Algs, p \in ClaimIds} \cup ForeignSigs)
          /\ ForeignSigs \subseteq signed
          /\ eret \in [op : OpNames, ok : BOOLEAN, tok : Msgs]
\* the envelope's signature is one an honest key made, arbitrary bytes, or none
SigKnown == ev.msg.sig \in signed \cup {NoSig, Junk}
IndInv == TypeOK /\ SigKnown /\ Binding /\ NoForgery /\ TwoSignsTwoTokens
ApaConstants == /\ Keys = {"k1", "k2", "k3"} /\ Algs = {"ES256", "ES384", "ES512", "EdDSA", "PS256", "PS384", "PS512"}
                /\ ClaimIds = {"cA", "cB", "cC", "cBad"} /\ InvalidIds = {"cBad"}
====
