SPECIFICATION SSpec
CONSTANTS
  Keys = {"k1", "k2"}
  Algs = {"ES256", "EdDSA", "PS256"}
  ClaimIds = {"cA", "cB", "cC", "cBad"}
  InvalidIds = {"cBad"}
  Depth = 30
INVARIANT Emit
CHECK_DEADLOCK FALSE
