SPECIFICATION TSpec
CONSTANTS
  Names = {}
  Kinds <- MCKinds
  MaxInst = 0
  MaxReg = 0
  Docs = {}
  Toks = {}
INVARIANT Verdict
CHECK_DEADLOCK FALSE
