---- MODULE PsaCodec ----
(***************************************************************************)
(* The embedding-aware codec of package encoding (C15), and its            *)
(* hand-written CBOR map reader as a cursor machine (C05, C06).            *)
(*                                                                         *)
(* Part 1 - struct shapes.  A shape is the sequence of a struct's fields   *)
(* in declaration order:                                                   *)
(*   [kind |-> "field", key, tagged, dash, omitempty, zero]                *)
(*   [kind |-> "embed", nilIface, sub |-> shape]   (embedded struct, or    *)
(*        embedded interface holding a struct pointer / nil)               *)
(* key is the integer CBOR key or the JSON member name; zero says whether  *)
(* the field currently holds its zero value.                               *)
(***************************************************************************)
EXTENDS Integers, Sequences, FiniteSets, TLC

Field(key, tagged, dash, omit, zero) ==
  [kind |-> "field", key |-> key, tagged |-> tagged, dash |-> dash, omitempty |-> omit, zero |-> zero, nilIface |-> FALSE, sub |-> <<>>]
Embed(sub, nilIface) ==
  [kind |-> "embed", key |-> 0, tagged |-> FALSE, dash |-> FALSE, omitempty |-> FALSE, zero |-> FALSE, nilIface |-> nilIface, sub |-> sub]
Emitted(f) == f.kind = "field" /\ f.tagged /\ ~f.dash /\ ~(f.omitempty /\ f.zero)
Expected(f) == f.kind = "field" /\ f.tagged /\ ~f.dash           \* a key the populate step looks for
\* own fields in order, then the embedded structs, recursively (an interface holding nil contributes nothing)
RECURSIVE SerializeKeys(_)
SerializeKeys(shape) ==
  LET own == SelectSeq(shape, Emitted)
      embeds == SelectSeq(shape, LAMBDA f : f.kind = "embed" /\ ~f.nilIface)
      RECURSIVE Cat(_)
      Cat(es) == IF es = <<>> THEN <<>> ELSE SerializeKeys(Head(es).sub) \o Cat(Tail(es))
  IN [i \in 1..Len(own) |-> own[i].key] \o Cat(embeds)
HasDup(s) == \E i, j \in 1..Len(s) : i # j /\ s[i] = s[j]
\* the map header for n entries: initial byte (0xa0 | n for n < 24) and the width of the length argument
HeaderBytes(n) == IF n < 24 THEN 1 ELSE IF n <= 255 THEN 2 ELSE IF n <= 65535 THEN 3 ELSE 5
HeaderByte0(n) == IF n < 24 THEN 160 + n ELSE IF n <= 255 THEN 184 ELSE IF n <= 65535 THEN 185 ELSE 186
\* serialisation: error on a duplicate key, else the ordered key list with a correct header
Serialize(shape) == LET ks == SerializeKeys(shape) IN
                    IF HasDup(ks) THEN [ok |-> FALSE, keys |-> <<>>, hdr |-> 0, b0 |-> 0]
                    ELSE [ok |-> TRUE, keys |-> ks, hdr |-> HeaderBytes(Len(ks)), b0 |-> HeaderByte0(Len(ks))]
\* the keys populate requires (non-optional), over the whole embedding tree
RECURSIVE MandatoryKeys(_)
MandatoryKeys(shape) ==
  LET own == {shape[i].key : i \in {j \in 1..Len(shape) : Expected(shape[j]) /\ ~shape[j].omitempty}}
      RECURSIVE U(_)
      U(es) == IF es = <<>> THEN {} ELSE MandatoryKeys(Head(es).sub) \cup U(Tail(es))
  IN own \cup U(SelectSeq(shape, LAMBDA f : f.kind = "embed" /\ ~f.nilIface))
\* populating from a map with key set ks succeeds iff every mandatory key is there (unknown keys are ignored)
PopulateOK(shape, ks) == MandatoryKeys(shape) \subseteq ks

(***************************************************************************)
(* Part 1b - discovery of the profile field (GetProfileJSONTag), used when *)
(* a profile is registered.  Fields here carry: name (Go field name),      *)
(* cborKey (the text of the cbor tag's key, "" when there is no cbor tag), *)
(* hasJson / jsonName.  Among a struct's own fields the first one whose    *)
(* cbor key is "265" or "-75000" wins; failing that a field named Profile  *)
(* WITHOUT cbor tag; failing that the embedded structs are searched in     *)
(* order.  A profile field without json tag is an error; no profile field  *)
(* anywhere is the "no profile" error (registration must fail).            *)
(***************************************************************************)
TagRes(ok, tag) == [ok |-> ok, tag |-> tag]
RECURSIVE ProfileTag(_)
ProfileTag(shape) ==
  LET own == SelectSeq(shape, LAMBDA f : f.kind = "field")
      byKey == SelectSeq(own, LAMBDA f : f.cborKey \in {"265", "-75000"})
      byName == SelectSeq(own, LAMBDA f : f.cborKey = "" /\ ~f.hasCbor /\ f.name = "Profile")
      embeds == SelectSeq(shape, LAMBDA f : f.kind = "embed" /\ ~f.nilIface)
      RECURSIVE First(_)
      First(es) == IF es = <<>> THEN TagRes(FALSE, "noprofile")
                   ELSE LET r == ProfileTag(Head(es).sub) IN
                        IF r.ok \/ r.tag # "noprofile" THEN r ELSE First(Tail(es))
      pick(f) == IF f.hasJson THEN TagRes(TRUE, f.jsonName) ELSE TagRes(FALSE, "nojson")
  IN IF byKey # <<>> THEN pick(byKey[1])
     ELSE IF byName # <<>> THEN pick(byName[Len(byName)])
     ELSE First(embeds)

(***************************************************************************)
(* Part 1c - the ordered field map of the JSON codec (structFieldsJSON):   *)
(* Keys (a Go slice: backing array + length) and Fields (a map).  Delete   *)
(* as the pinned code wrote it removes entries from the slice it is        *)
(* ranging over; MC_JsonKeys shows that with a repeated key (a JSON object *)
(* with a duplicate member) it indexes past the shrunken slice (defect D3) *)
(* and that the repaired Delete keeps Keys and Fields in agreement.        *)
(***************************************************************************)
\* the repaired Delete: every occurrence goes
DeleteKeys(keys, k) == SelectSeq(keys, LAMBDA x : x # k)

(***************************************************************************)
(* Part 2 - structFieldsCBOR.FromCBOR + processAdditionalInfo as a cursor  *)
(* machine over the input bytes.  Decoding of the individual key / value   *)
(* items is delegated to the CBOR library; the machine takes it as an      *)
(* oracle: KeyAt[p] = [ok, v, n] (an integer key of n bytes with value v   *)
(* starts at byte p) and ValAt[p] = [ok, n].  What is specified is the     *)
(* hand-written part: initial byte, optional tag, map header, definite /   *)
(* indefinite loop, duplicate keys, end of input - and what it reserves.   *)
(* AsCoded = TRUE reproduces the pinned code's transitions (a documented   *)
(* deviation kept for regression of the model): it panics on a lone tag,   *)
(* treats every empty map as indefinite and reserves the declared length.  *)
(***************************************************************************)
ArgBytes(a) == CASE a < 24 -> 0 [] a = 24 -> 1 [] a = 25 -> 2 [] a = 26 -> 4 [] a = 31 -> 0 [] OTHER -> -1    \* 27: 8-byte length refused
ArgVal(s, c, a) == CASE a < 24 -> a
                     [] a = 24 -> s[c+1]
                     [] a = 25 -> s[c+1] * 256 + s[c+2]
                     [] a = 26 -> IF s[c+1] >= 128 THEN 2147483647             \* beyond TLC's integers: "huge"
                                  ELSE ((s[c+1] * 256 + s[c+2]) * 256 + s[c+3]) * 256 + s[c+4]
                     [] OTHER -> 0
RInit(s) == [pc |-> "start", cur |-> 0, major |-> -1, ai |-> -1, mapLen |-> -1, indef |-> FALSE, reserved |-> 0,
             got |-> 0, keys |-> <<>>, out |-> "running"]
Halt(st, o) == [st EXCEPT !.out = o, !.pc = "done"]
InSeq(x, s) == \E i \in 1..Len(s) : s[i] = x
\* one transition of the machine (st.pc # "done")
RStep(s, orc, asCoded, st) ==
  LET rem == Len(s) - st.cur IN
  CASE st.pc = "start" ->
         IF Len(s) = 0 THEN Halt(st, "err")
         ELSE [st EXCEPT !.major = s[1] \div 32, !.ai = s[1] % 32, !.cur = 1,
                         !.pc = IF s[1] \div 32 = 6 THEN "tagarg" ELSE "checkmap"]
    [] st.pc = "tagarg" ->
         IF ArgBytes(st.ai) < 0 \/ rem < ArgBytes(st.ai) THEN Halt(st, "err")
         ELSE LET c2 == st.cur + ArgBytes(st.ai) IN
              IF c2 >= Len(s) THEN Halt(st, IF asCoded THEN "panic" ELSE "err")      \* nothing after the tag
              ELSE [st EXCEPT !.major = s[c2+1] \div 32, !.ai = s[c2+1] % 32, !.cur = c2 + 1, !.pc = "checkmap"]
    [] st.pc = "checkmap" ->
         IF st.major # 5 THEN Halt(st, "err")
         ELSE IF ArgBytes(st.ai) < 0 \/ rem < ArgBytes(st.ai) THEN Halt(st, "err")
         ELSE LET n == ArgVal(s, st.cur, st.ai) IN
              [st EXCEPT !.mapLen = n, !.cur = st.cur + ArgBytes(st.ai),
                         !.indef = IF asCoded THEN (n = 0) ELSE (st.ai = 31),
                         !.reserved = IF asCoded THEN n ELSE 0,                        \* make(map, mapLen)
                         !.pc = "pairs"]
    [] st.pc = "pairs" ->
         IF st.indef /\ rem = 0 THEN Halt(st, "err")                                    \* no break: unexpected EOF
         ELSE IF st.indef /\ s[st.cur+1] = 255 THEN Halt(st, "ok")
         ELSE IF ~st.indef /\ st.got = st.mapLen THEN Halt(st, "ok")
         ELSE LET k == orc.key[st.cur+1] IN
              IF rem = 0 \/ ~k.ok THEN Halt(st, "err")
              ELSE LET v == orc.val[st.cur + k.n + 1] IN
                   IF st.cur + k.n >= Len(s) \/ ~v.ok THEN Halt(st, "err")
                   ELSE IF InSeq(k.v, st.keys) THEN Halt(st, "err")                     \* duplicate key
                   ELSE [st EXCEPT !.keys = Append(@, k.v), !.cur = st.cur + k.n + v.n, !.got = @ + 1,
                                   !.reserved = IF asCoded THEN @ ELSE @ + 1]
RECURSIVE RRun(_, _, _, _)
RRun(s, orc, asCoded, st) == IF st.pc = "done" THEN st ELSE RRun(s, orc, asCoded, RStep(s, orc, asCoded, st))
ReaderOutcome(s, orc, asCoded) == RRun(s, orc, asCoded, RInit(s))
\* the resource rule of C06 for this reader: what it reserves is bounded by what is present
ReservedBound(s) == 4 + 2 * Len(s)
====
