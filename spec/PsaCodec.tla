---- MODULE PsaCodec ----
(***************************************************************************)
(* The embedding-aware codec of package encoding (C15), and its            *)
(* hand-written CBOR map reader as a cursor machine (C05, C06).            *)
(*                                                                         *)
(* Part 1 - struct shapes.  A shape is the sequence of a struct's fields   *)
(* in declaration order:                                                   *)
(*   [kind |-> "field", key, tagged, dash, omitempty, zero]                *)
(*   [kind |-> "embed", nilIface, sub |-> shape]   (embedded struct, or    *)
(*        embedded interface holding a struct pointer / nil)               *)
(* key is the integer CBOR key or the JSON member name; zero says whether  *)
(* the field currently holds its zero value.                               *)
(***************************************************************************)
EXTENDS Integers, Sequences, FiniteSets, TLC, PsaCodecReader

Field(key, tagged, dash, omit, zero) ==
  [kind |-> "field", key |-> key, tagged |-> tagged, dash |-> dash, omitempty |-> omit, zero |-> zero, nilIface |-> FALSE, sub |-> <<>>]
Embed(sub, nilIface) ==
  [kind |-> "embed", key |-> 0, tagged |-> FALSE, dash |-> FALSE, omitempty |-> FALSE, zero |-> FALSE, nilIface |-> nilIface, sub |-> sub]
Emitted(f) == f.kind = "field" /\ f.tagged /\ ~f.dash /\ ~(f.omitempty /\ f.zero)
Expected(f) == f.kind = "field" /\ f.tagged /\ ~f.dash           \* a key the populate step looks for
\* own fields in order, then the embedded structs, recursively (an interface holding nil contributes nothing)
RECURSIVE SerializeKeys(_)
SerializeKeys(shape) ==
  LET own == SelectSeq(shape, Emitted)
      embeds == SelectSeq(shape, LAMBDA f : f.kind = "embed" /\ ~f.nilIface)
      RECURSIVE Cat(_)
      Cat(es) == IF es = <<>> THEN <<>> ELSE SerializeKeys(Head(es).sub) \o Cat(Tail(es))
  IN [i \in 1..Len(own) |-> own[i].key] \o Cat(embeds)
HasDup(s) == \E i, j \in 1..Len(s) : i # j /\ s[i] = s[j]
\* the map header for n entries: initial byte (0xa0 | n for n < 24) and the width of the length argument
HeaderBytes(n) == IF n < 24 THEN 1 ELSE IF n <= 255 THEN 2 ELSE IF n <= 65535 THEN 3 ELSE 5
HeaderByte0(n) == IF n < 24 THEN 160 + n ELSE IF n <= 255 THEN 184 ELSE IF n <= 65535 THEN 185 ELSE 186
\* serialisation: error on a duplicate key, else the ordered key list with a correct header
Serialize(shape) == LET ks == SerializeKeys(shape) IN
                    IF HasDup(ks) THEN [ok |-> FALSE, keys |-> <<>>, hdr |-> 0, b0 |-> 0]
                    ELSE [ok |-> TRUE, keys |-> ks, hdr |-> HeaderBytes(Len(ks)), b0 |-> HeaderByte0(Len(ks))]
\* the keys populate requires (non-optional), over the whole embedding tree
RECURSIVE MandatoryKeys(_)
MandatoryKeys(shape) ==
  LET own == {shape[i].key : i \in {j \in 1..Len(shape) : Expected(shape[j]) /\ ~shape[j].omitempty}}
      RECURSIVE U(_)
      U(es) == IF es = <<>> THEN {} ELSE MandatoryKeys(Head(es).sub) \cup U(Tail(es))
  IN own \cup U(SelectSeq(shape, LAMBDA f : f.kind = "embed" /\ ~f.nilIface))
\* populating from a map with key set ks succeeds iff every mandatory key is there (unknown keys are ignored)
PopulateOK(shape, ks) == MandatoryKeys(shape) \subseteq ks

(***************************************************************************)
(* Part 1b - discovery of the profile field (GetProfileJSONTag), used when *)
(* a profile is registered.  Fields here carry: name (Go field name),      *)
(* cborKey (the text of the cbor tag's key, "" when there is no cbor tag), *)
(* hasJson / jsonName.  Among a struct's own fields the first one whose    *)
(* cbor key is "265" or "-75000" wins; failing that a field named Profile  *)
(* WITHOUT cbor tag; failing that the embedded structs are searched in     *)
(* order.  A profile field without json tag is an error; no profile field  *)
(* anywhere is the "no profile" error (registration must fail).            *)
(***************************************************************************)
TagRes(ok, tag) == [ok |-> ok, tag |-> tag]
RECURSIVE ProfileTag(_)
ProfileTag(shape) ==
  LET own == SelectSeq(shape, LAMBDA f : f.kind = "field")
      byKey == SelectSeq(own, LAMBDA f : f.cborKey \in {"265", "-75000"})
      byName == SelectSeq(own, LAMBDA f : f.cborKey = "" /\ ~f.hasCbor /\ f.name = "Profile")
      embeds == SelectSeq(shape, LAMBDA f : f.kind = "embed" /\ ~f.nilIface)
      RECURSIVE First(_)
      First(es) == IF es = <<>> THEN TagRes(FALSE, "noprofile")
                   ELSE LET r == ProfileTag(Head(es).sub) IN
                        IF r.ok \/ r.tag # "noprofile" THEN r ELSE First(Tail(es))
      pick(f) == IF f.hasJson THEN TagRes(TRUE, f.jsonName) ELSE TagRes(FALSE, "nojson")
  IN IF byKey # <<>> THEN pick(byKey[1])
     ELSE IF byName # <<>> THEN pick(byName[Len(byName)])
     ELSE First(embeds)

(***************************************************************************)
(* Part 1c - the ordered field map of the JSON codec (structFieldsJSON):   *)
(* Keys (a Go slice: backing array + length) and Fields (a map).  Delete   *)
(* as the pinned code wrote it removes entries from the slice it is        *)
(* ranging over; MC_JsonKeys shows that with a repeated key (a JSON object *)
(* with a duplicate member) it indexes past the shrunken slice (defect D3) *)
(* and that the repaired Delete keeps Keys and Fields in agreement.        *)
(***************************************************************************)
\* the repaired Delete: every occurrence goes
DeleteKeys(keys, k) == SelectSeq(keys, LAMBDA x : x # k)

(***************************************************************************)
(* Part 2 - structFieldsCBOR.FromCBOR + processAdditionalInfo as a cursor  *)
(* (the transition function RStep lives in PsaCodecReader, which the proof  *)
(* system can read: it has no RECURSIVE operators)                         *)
(* machine over the input bytes.  Decoding of the individual key / value   *)
(* items is delegated to the CBOR library; the machine takes it as an      *)
(* oracle: KeyAt[p] = [ok, v, n] (an integer key of n bytes with value v   *)
(* starts at byte p) and ValAt[p] = [ok, n].  What is specified is the     *)
(* hand-written part: initial byte, optional tag, map header, definite /   *)
(* indefinite loop, duplicate keys, end of input - and what it reserves.   *)
(* AsCoded = TRUE reproduces the pinned code's transitions (a documented   *)
(* deviation kept for regression of the model): it panics on a lone tag,   *)
(* treats every empty map as indefinite and reserves the declared length.  *)
(***************************************************************************)
RECURSIVE RRun(_, _, _, _)
RRun(s, orc, asCoded, st) == IF st.pc = "done" THEN st ELSE RRun(s, orc, asCoded, RStep(s, orc, asCoded, st))
ReaderOutcome(s, orc, asCoded) == RRun(s, orc, asCoded, RInit(s))
====
