---- MODULE Sim_Evidence ----
(***************************************************************************)
(* gen step for Evidence histories (C19, also C02 / C03 / C08 / C18):      *)
(* TLC simulates behaviours of PsaEvidence - attach, SetClaims (valid and  *)
(* invalid), Sign / ValidateAndSign with good and faulty signers, decode   *)
(* of valid / tampered / garbage / other-key tokens, Verify with either    *)
(* key - and writes each behaviour's operation list as one JSON line.      *)
(* Every honest signature is available to the adversary from the start     *)
(* (the harness pre-signs them), i.e. the strongest adversary.             *)
(***************************************************************************)
EXTENDS MC_Evidence, Json, IOUtils, CSV
CONSTANT Depth
VARIABLE hist
svars == <<evars, hist>>
Log(o) == hist' = Append(hist, o)
Last == hist[Len(hist)]
SInit == EInitAll /\ hist = <<[op |-> "Start"]>>
\* the tokens offered for decoding: every honest token, and tampered / malformed relatives
Tok(wf, p, a, sg) == [wf |-> wf, payload |-> p, alg |-> a, sig |-> sg]
GoodToks == {Tok(TRUE, p, a, Sig(k, a, p)) : k \in Keys, a \in Algs, p \in ClaimIds}
K1 == CHOOSE k \in Keys : TRUE
BadToks == {t \in {Tok(TRUE, p2, a, Sig(K1, a, p)) : a \in Algs, p \in ClaimIds, p2 \in ClaimIds} : t.payload # t.sig.p}     \* payload swapped
           \cup {t \in {Tok(TRUE, "cA", a2, Sig(K1, a, "cA")) : a \in Algs, a2 \in Algs \cup {"none", "unsupported"}} : t.alg # t.sig.a}  \* header swapped
           \cup {Tok(TRUE, p, a, Junk) : a \in Algs, p \in ClaimIds}                                         \* arbitrary signature
           \cup {Tok(TRUE, p, a, NoSig) : a \in Algs, p \in {"cA"}}                                          \* empty signature
           \cup {Tok(TRUE, p, a, Sig(K1, a, "cA")) : a \in Algs, p \in {"garbage", "nil"}}                    \* payload that is no claims map
           \cup {Tok(TRUE, "garbage", a, Sig(k, a, "garbage")) : k \in Keys, a \in Algs}                        \* genuinely signed, but no claims map
           \cup {Tok(FALSE, "cA", a, Sig(K1, a, "cA")) : a \in Algs}                                         \* not a COSE_Sign1
SimToks == GoodToks \cup BadToks
IsGood(sg) == sg.kind = "good"
\* (the w parameters only weight TLC's uniform choice among successors)
Step ==
  \* (same: the argument is the very object already attached, whose content may have been changed in place since)
  \/ \E c \in ClaimIds, w \in 1..6 : SetClaims(c) /\ Log([op |-> "SetClaims", c |-> c, same |-> (ev.claims = c /\ w > 2)])
  \/ \E c \in ClaimIds, w \in 1..3 : Attach(c) /\ Log([op |-> "Attach", c |-> c, inplace |-> FALSE])
  \* outside mutation of the attached claims object (same object, new content): to the Evidence it is an attach
  \/ \E c \in ClaimIds, w \in 1..8 : ev.claims # "nil" /\ Attach(c) /\ Log([op |-> "Attach", c |-> c, inplace |-> TRUE])
  \/ \E sg \in Signers, w \in 1..3 : (w = 1 \/ IsGood(sg)) /\ SignWith(sg, FALSE) /\ Log([op |-> "Sign", sg |-> sg])   \* (also without claims)
  \/ \E sg \in Signers, w \in 1..3 : (w = 1 \/ IsGood(sg)) /\ ev.claims # "nil" /\ SignWith(sg, TRUE) /\ Log([op |-> "ValidateAndSign", sg |-> sg])
  \/ \E t \in SimToks : Unmarshal(t) /\ Log([op |-> "UnmarshalCOSE", t |-> t])
  \/ \E k \in Keys, w \in 1..25 : Verify(k) /\ Log([op |-> "Verify", k |-> k])
Close == Len(hist) = Depth + 1 /\ Last.op # "End" /\ Log([op |-> "End"]) /\ UNCHANGED evars
SNext == (Len(hist) <= Depth /\ Step) \/ Close
SSpec == SInit /\ [][SNext]_svars
Emit == Last.op # "End" \/ CSVWrite("%1$s", <<ToJson(hist)>>, IOEnv.OUT)
====
