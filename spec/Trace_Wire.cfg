SPECIFICATION TSpec
CONSTANTS
  Profiles = {"P1"}
  DomBytes = {}
  DomLC = {}
  DomCert = {}
  DomSw = {}
  DomInvalid = {}
  MaxComps = 0
INVARIANT Verdict
CHECK_DEADLOCK FALSE
