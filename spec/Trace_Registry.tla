---- MODULE Trace_Registry ----
(***************************************************************************)
(* Judge for register / instance histories (C16, C07).  The spec state     *)
(* (reg, insts) is carried from event to event; every event is one public  *)
(* call, after which the harness re-observed the whole register, every     *)
(* lookup, a battery of JSON / CBOR dispatches (JSON repeated, Go's map    *)
(* order being random) and every live instance.  All of it must be what    *)
(* the specification's state says.                                         *)
(***************************************************************************)
EXTENDS MC_Registry, TraceLib
VARIABLES l, bad, bat
tvars == <<rvars, l, bad, bat>>
RegOf(e) == LET names == {e.reg[i].name : i \in 1..Len(e.reg)} IN
            [n \in names |-> LET i == CHOOSE j \in 1..Len(e.reg) : e.reg[j].name = n IN
                             [p |-> e.reg[i].p, canon |-> e.reg[i].canon, impl |-> e.reg[i].impl, tag |-> e.reg[i].tag]]
KindsT == MCKinds
EntryT(name, kind) == [p |-> KindsT[kind].p, canon |-> name, impl |-> kind, tag |-> KindsT[kind].tag]
RegisterT(r, name, kind) ==
  IF name \in DOMAIN r \/ KindsT[kind].tag = "none" THEN [post |-> r, ok |-> FALSE]
  ELSE [post |-> [n \in DOMAIN r \cup {name} |-> IF n = name THEN EntryT(name, kind) ELSE r[n]], ok |-> TRUE]
\* what a factory hands out (X4 keeps its profile in an outer field, the embedded profile-1 claim stays absent)
FreshOf(e) == IF e.impl = "X4" THEN Blank(e.p, e.canon) ELSE Fresh(e.p, e.canon)
ExpJ(r, d) == LET x == DispatchJSON(r, d) IN IF x.r = "ok" THEN x.e.impl ELSE "err"
\* the spec's step: [ok, reg, insts] (insts = "keep" marks: append the observed new instance)
StepT(e) ==
  CASE e.op = "Start"    -> [ok |-> TRUE, reg |-> BaseReg, insts |-> <<>>, app |-> FALSE]
    [] e.op = "Register" -> LET x == RegisterT(reg, e.name, e.kind) IN [ok |-> x.ok, reg |-> x.post, insts |-> insts, app |-> FALSE]
    [] e.op = "NewClaims"-> LET x == NewClaimsF(reg, e.name) IN
                            IF x.ok /\ x.e.impl \notin {"X5", "X6"} THEN [ok |-> TRUE, reg |-> reg, insts |-> Append(insts, FreshOf(x.e)), app |-> FALSE]
                            ELSE [ok |-> x.ok, reg |-> reg, insts |-> insts, app |-> FALSE]
    [] e.op = "DecodeJSON" -> LET x == DispatchJSON(reg, bat.j[e.ix].doc) IN [ok |-> x.r = "ok", reg |-> reg, insts |-> insts, app |-> x.r = "ok"]
    \* DecodeCOSE: the same token as the payload of an envelope, decoded by ONE reused Evidence
    [] e.op \in {"DecodeCBOR", "DecodeCOSE"} -> LET x == DispatchCBOR(reg, bat.c[e.ix].tok) IN
                              [ok |-> IF x.r = "open" THEN e.retOK ELSE x.r = "ok", reg |-> reg, insts |-> insts, app |-> e.retOK]
    [] e.op = "Mutate"   -> IF e.ix > Len(insts) THEN [ok |-> FALSE, reg |-> reg, insts |-> insts, app |-> FALSE]
                            ELSE IF e.how = "poke"       \* in-place writes through the instance's own pointers: its new value is
                                 THEN [ok |-> TRUE, reg |-> reg,     \* whatever was observed; everything else must stay what it was
                                       insts |-> [insts EXCEPT ![e.ix] = e.insts[e.ix]], app |-> FALSE]
                            ELSE LET o == insts[e.ix]
                                     x == CASE e.how = "setsw" -> SetSwF(o, e.arg.l, FALSE)
                                            [] e.how = "add" -> AddSwF(o, e.arg.l)
                                            [] e.how = "setnonce" -> SetF(o, "nonce", e.arg)
                                            [] e.how = "setbad" -> SetF(o, "implId", e.arg)
                                 IN [ok |-> x.ret.ok, reg |-> reg, insts |-> [insts EXCEPT ![e.ix] = x.post], app |-> FALSE]
    [] e.op = "Drop"     -> [ok |-> TRUE, reg |-> reg, insts |-> <<>>, app |-> FALSE]
LookupNames(e) == DOMAIN e.lookups
ObservedOK(e, r, is) ==
  /\ RegOf(e) = r                                                              \* the whole register
  /\ \A n \in LookupNames(e) : e.lookups[n] = (IF n \in DOMAIN r THEN r[n].impl ELSE "err")
  /\ \A n \in LookupNames(e) : n \in DOMAIN r /\ r[n].impl \notin {"X5", "X6"} => e.newRep[n] = n      \* NewClaims(p) reports p
  /\ \A j \in 1..Len(bat.j) : e.jouts[j] = <<ExpJ(r, bat.j[j].doc)>>          \* one outcome, the expected one
  /\ \A j \in 1..Len(bat.c) : LET x == DispatchCBOR(r, bat.c[j].tok) IN
        x.r = "open" \/ e.couts[j] = (IF x.r = "ok" THEN x.e.impl ELSE "err")
  /\ IF is.app THEN Len(e.insts) = Len(is.insts) + 1 /\ SubSeq(e.insts, 1, Len(is.insts)) = is.insts
     ELSE e.insts = is.insts                                                   \* nobody else's state moved
MatchR(e) ==
  LET x == StepT(e)  b2 == IF e.op = "Start" THEN [j |-> e.batJ, c |-> e.batC] ELSE bat IN
  /\ ~e.panicked
  /\ e.retOK = x.ok
  /\ (e.op = "Start" \/ ObservedOK(e, x.reg, x))
TInit == RInit /\ l = 1 /\ bad = <<>> /\ bat = [j |-> <<>>, c |-> <<>>]
TNext == /\ l <= Len(Trace) /\ l' = l + 1
         /\ LET e == Trace[l] IN
            /\ bad' = IF (e.i = 0 <=> e.op = "Start") /\ MatchR(e) THEN bad ELSE Append(bad, l)
            /\ bat' = IF e.op = "Start" THEN [j |-> e.batJ, c |-> e.batC] ELSE bat
            /\ reg' = RegOf(e)                      \* (re)synchronise on the observed state
            /\ insts' = e.insts
         /\ UNCHANGED <<cells, next, rret>>
TSpec == TInit /\ [][TNext]_tvars
Ops == {Trace[i].op : i \in 1..Len(Trace)}
Verdict == l = Len(Trace) + 1 =>
   WriteVerdict([n |-> Len(Trace), bad |-> bad, ops |-> Ops,
                 regOK |-> Cardinality({i \in 1..Len(Trace) : Trace[i].op = "Register" /\ Trace[i].retOK}),
                 regFail |-> Cardinality({i \in 1..Len(Trace) : Trace[i].op = "Register" /\ ~Trace[i].retOK})])
====
