SPECIFICATION MSpec
CONSTANTS
  Alphabet = {0, 1, 23, 24, 160, 161, 162, 184, 185, 186, 187, 188, 191, 192, 216, 255}
  MaxLen = 4
  AsCoded = FALSE
INVARIANTS NoPanic InBounds ReservedBounded EmptyMapOK RunAgrees KeysDistinct
CHECK_DEADLOCK FALSE
