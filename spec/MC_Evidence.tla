---- MODULE MC_Evidence ----
EXTENDS PsaEvidence
\* the strongest adversary: every honest signature is available from the start
AllSigned == {Sig(k, a, p) : k \in Keys, a \in Algs, p \in ClaimIds} \cup ForeignSigs
EInitAll == ev = EvInit /\ signed = AllSigned /\ eret = RetRec("init", Res(TRUE, NoMsg))
ESpecAll == EInitAll /\ [][ENext]_evars
====
