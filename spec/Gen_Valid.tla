---- MODULE Gen_Valid ----
(***************************************************************************)
(* gen step: the valid claims-sets of both profiles (C03, C09, C10, C12):  *)
(* every subset of the optional claims, hash sizes 32 / 48 / 64, one to    *)
(* four components with every optional-field subset, text classes,         *)
(* negative client ids, profile 1 with and without explicit profile and    *)
(* with the no-measurements flag.  ASSUME checks that the specification    *)
(* itself judges every generated set valid.                                *)
(***************************************************************************)
EXTENDS PsaClaims, Json, IOUtils
H(n) == Bytes(n, 2)
MinI32 == -2147483647 - 1
TextOpt == {Abs, Str(2, 0)}
CompsAll == {Comp(mt, mv, ver, sid, desc) : mt \in TextOpt, mv \in {H(32)}, ver \in TextOpt, sid \in {H(64)}, desc \in TextOpt}
CA == Comp(Abs, H(32), Abs, H(32), Abs)
CB == Comp(Str(2, 0), H(48), Str(5, 1), H(64), Str(9, 2))
CC == Comp(Abs, H(64), Str(0, 0), H(48), Abs)                \* an empty (but present) optional text field
SwChoices == {<<CA>>, <<CB>>, <<CA, CB>>, <<CB, CA, CC>>, <<CA, CB, CC, CB>>} \cup {<<c>> : c \in CompsAll}
Base(p) == [Blank(p, Canon(p)) EXCEPT !.implId = H(32), !.instId = Bytes(33, 1)]
P1Sets == { [Base("P1") EXCEPT !.profile = pr, !.clientId = IntV(ci), !.lifecycle = IntV(lc), !.bootSeed = H(32), !.certRef = cr,
                               !.nonce = H(nn), !.vsi = vs, !.sw = SwV(sw.l), !.noSw = sw.f]
            : pr \in {Abs, Prof(P1Name)}, ci \in {MinI32, -1, 0, 2147483647}, lc \in {0, 12543, 24576},
              cr \in {Abs, Text(EAN13), Text(EAN13p5)}, nn \in {32, 48, 64}, vs \in {Abs, Str(46, 0), Str(7, 1), Str(9, 2)},
              sw \in {[l |-> <<>>, f |-> IntV(1)]} \cup {[l |-> x, f |-> Abs] : x \in SwChoices} }
P2Sets == { [Base("P2") EXCEPT !.profile = Prof(P2Name), !.clientId = IntV(ci), !.lifecycle = IntV(lc), !.bootSeed = bs, !.certRef = cr,
                               !.nonce = Nonces(<<H(nn)>>), !.vsi = vs, !.sw = SwV(sw)]
            : ci \in {MinI32, -1, 0, 2147483647}, lc \in {255, 12288, 24831}, bs \in {Abs, H(8), H(20), H(32)},
              cr \in {Abs, Text(EAN13p5)}, nn \in {32, 48, 64}, vs \in {Abs, Str(46, 0), Str(7, 1), Str(9, 2)}, sw \in SwChoices }
ASSUME \A o \in P1Sets \cup P2Sets : Valid(o)
ASSUME JsonSerialize(IOEnv.OUT, [P1 |-> P1Sets, P2 |-> P2Sets])
VARIABLE dummy
GInit == dummy = 0
GNext == UNCHANGED dummy
====
