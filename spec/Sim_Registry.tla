---- MODULE Sim_Registry ----
(***************************************************************************)
(* gen step for register / instance histories (C16, C07): TLC simulates    *)
(* behaviours of PsaRegistry - register, re-register, register a type      *)
(* without profile field, NewClaims, dispatching decodes of battery        *)
(* documents, mutation of one live instance - and writes the operation     *)
(* list of each behaviour as one JSON line.                                *)
(***************************************************************************)
EXTENDS MC_Registry, Json, IOUtils, CSV
CONSTANTS Depth, NBatJ, NBatC
VARIABLE hist
svars == <<rvars, hist>>
Log(o) == hist' = Append(hist, o)
Last == hist[Len(hist)]
SInit == RInit /\ hist = <<[op |-> "Start"]>>
\* decodes are logged by battery index; the model's own Docs / Toks are not needed to generate
Step ==
  \/ \E n \in RegNames, k \in DOMAIN Kinds : Register(n, k) /\ Log([op |-> "Register", name |-> n, kind |-> k])
  \/ \E n \in Names \cup {P1Name, P2Name, "http://UNKNOWN"}, w \in 1..4 :      \* (w: weight, the simulator picks uniformly)
       /\ rret' = rret /\ UNCHANGED <<reg, cells, next>> /\ Len(insts) < MaxInst
       /\ insts' = Append(insts, [impl |-> "?", canon |-> n, cid |-> 0])
       /\ Log([op |-> "NewClaims", name |-> n])
  \/ \E j \in 1..NBatJ : Len(insts) < MaxInst /\ insts' = Append(insts, [impl |-> "?", canon |-> "?", cid |-> 0])
                         /\ UNCHANGED <<reg, cells, next, rret>> /\ Log([op |-> "DecodeJSON", ix |-> j])
  \/ \E j \in 1..NBatC, w \in 1..2 : Len(insts) < MaxInst /\ insts' = Append(insts, [impl |-> "?", canon |-> "?", cid |-> 0])
                         /\ UNCHANGED <<reg, cells, next, rret>> /\ Log([op |-> "DecodeCBOR", ix |-> j])
  \* the same tokens as payload of a COSE_Sign1 envelope, all decoded by the one Evidence value the history keeps reusing:
  \* what it attaches must be a fresh instance every time, like the result of any other decode
  \/ \E j \in 1..NBatC, w \in 1..2 : Len(insts) < MaxInst /\ insts' = Append(insts, [impl |-> "?", canon |-> "?", cid |-> 0])
                         /\ UNCHANGED <<reg, cells, next, rret>> /\ Log([op |-> "DecodeCOSE", ix |-> j])
  \/ \E i \in 1..Len(insts), m \in {"setsw", "add", "setnonce", "setbad", "poke"}, w \in 1..3 :
       UNCHANGED rvars /\ Log([op |-> "Mutate", ix |-> i, how |-> m])
  \/ Len(insts) > 0 /\ insts' = <<>> /\ UNCHANGED <<reg, cells, next, rret>> /\ Log([op |-> "Drop"])
Close == Len(hist) = Depth + 1 /\ Last.op # "End" /\ Log([op |-> "End"]) /\ UNCHANGED rvars
SNext == (Len(hist) <= Depth /\ Step) \/ Close
SSpec == SInit /\ [][SNext]_svars
Emit == Last.op # "End" \/ CSVWrite("%1$s", <<ToJson(hist)>>, IOEnv.OUT)
====
