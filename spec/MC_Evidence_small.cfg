SPECIFICATION ESpec
CONSTANTS
  Keys = {"k1", "k2"}
  Algs = {"ES256"}
  ClaimIds = {"cA", "cBad"}
  InvalidIds = {"cBad"}
INVARIANTS Binding NoForgery GoodSignAlwaysSucceeds TwoSignsTwoTokens
PROPERTIES GoodSignVerifies EveryStepPost
VIEW EView
CHECK_DEADLOCK FALSE
