---- MODULE PsaConcurrent ----
(***************************************************************************)
(* The read-side API under concurrency (C17).  Goroutines run operations   *)
(* with declared footprints over memory cells: the package state (profile  *)
(* register, the shared CBOR encode / decode modes, whatever package-level *)
(* state the codec helpers keep), shared claims-sets, shared decoded       *)
(* Evidence, and objects private to one goroutine.                         *)
(*                                                                         *)
(* The property covers exactly the schedules in which no operation writes  *)
(* a cell another running operation touches (read-only operations on       *)
(* shared objects, anything on private ones).  The model states the        *)
(* footprints the library is entitled to (reads of package state, no       *)
(* writes after init) and generates the schedules: batches of operations   *)
(* released together, with no intermediate synchronisation that could hide *)
(* a race.  Executing them under the Go race detector decides "no data     *)
(* race"; the judge decides "same results as sequentially".                *)
(***************************************************************************)
EXTENDS Integers, Sequences, FiniteSets, TLC, Json, IOUtils, CSV
CONSTANTS N,           \* goroutines per batch
          Batches      \* batches per schedule
Shared == {"claimsP1", "claimsP2", "claimsX2", "claimsP1nosw", "evidenceP2", "evidenceP1"}
Objects == Shared \cup {"private"}
Package == {"register", "encMode", "decMode", "codecHelpers"}
\* operations: what they read and write
Ops == {"NewClaimsP1", "NewClaimsP2", "NewClaimsX2", "DecodeCBOR", "DecodeJSON", "DecodeCOSE", "DecodeCBORX2", "DecodeJSONX2", "DecodeDerived",
        "Validate", "Getters", "EncodeCBOR", "EncodeJSON", "ValidateAndEncode", "SignWithSharedClaims", "Verify", "EvidenceJSON",
        "BuildAndSign", "SetterHistory"}
OnClaims == {"Validate", "Getters", "EncodeCBOR", "EncodeJSON", "ValidateAndEncode", "SignWithSharedClaims"}
OnEvidence == {"Verify", "EvidenceJSON", "Validate", "Getters", "EncodeCBOR", "EncodeJSON"}
NoObject == Ops \ (OnClaims \cup OnEvidence)             \* create / decode / build: work on fresh private objects only
Reads(op, o) == (IF o \in Shared THEN {o} ELSE {}) \cup Package
Writes(op, o) == IF op \in NoObject \/ o = "private" THEN {"private"} ELSE {}      \* read-side operations write nothing shared
\* which (operation, object) pairs the property covers
IsClaimsObj(o) == o \in {"claimsP1", "claimsP2", "claimsX2", "claimsP1nosw"}
IsEvObj(o) == o \in {"evidenceP2", "evidenceP1"}
Legal(op, o) == \/ op \in NoObject /\ o = "private"
                \/ op \in OnClaims /\ (IsClaimsObj(o) \/ o = "private")
                \/ op \in OnEvidence /\ IsEvObj(o)
Pairs == {[op |-> op, obj |-> o] : op \in Ops, o \in Objects}
LegalPairs == {p \in Pairs : Legal(p.op, p.obj)}
VARIABLES batch, sched, done
cvars2 == <<batch, sched, done>>
CInit == batch = <<>> /\ sched = <<>> /\ done = FALSE
\* assign the next goroutine of the batch an operation
AddOp == /\ Len(batch) < N /\ Len(sched) < Batches
         /\ \E p \in LegalPairs : batch' = Append(batch, p)
         /\ UNCHANGED <<sched, done>>
\* release the batch: all N operations run concurrently
Release == /\ Len(batch) = N
           /\ sched' = Append(sched, batch) /\ batch' = <<>> /\ UNCHANGED done
Done == Len(sched) = Batches /\ batch = <<>> /\ ~done /\ done' = TRUE /\ UNCHANGED <<batch, sched>>
CNext == AddOp \/ Release \/ Done
CSpec == CInit /\ [][CNext]_cvars2
\* no operation of a released batch writes a cell that another operation of the batch touches
NoSharedWrite == \A b \in 1..Len(sched) : \A i, j \in 1..Len(sched[b]) : i # j =>
     (Writes(sched[b][i].op, sched[b][i].obj) \ {"private"}) \cap
     (Reads(sched[b][j].op, sched[b][j].obj) \cup Writes(sched[b][j].op, sched[b][j].obj)) = {}
Emit == ~done \/ CSVWrite("%1$s", <<ToJson(sched)>>, IOEnv.OUT)
====
