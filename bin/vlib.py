"""Orchestration library for the psatoken verification checks (Python 3, stdlib only).

Pipeline per check:  gen (TLC) -> run (real code, Go harness built from /repo's working
tree with -tags verif) -> judge (TLC trace spec).  Verdicts come only from the judge.
Exit codes: 0 held, 1 violation (VIOLATION line printed), 2 machinery failure.
"""
import hashlib
import json
import os
import re
import shutil
import subprocess
import sys
import time
from concurrent.futures import ThreadPoolExecutor

VERIF = os.path.dirname(os.path.dirname(os.path.abspath(__file__)))
REPO = os.environ.get("VERIF_REPO", "/repo")
WORK = os.path.join(VERIF, ".work")
SPEC = os.path.join(VERIF, "spec")
HARNESS_SRC = os.path.join(VERIF, "harness")
OUT = os.path.join(VERIF, "out")
TLA_CP = "/opt/veriftools/tla/tla2tools.jar:/opt/veriftools/tla/CommunityModules-deps.jar"
GOENV = dict(GOFLAGS="-mod=mod", GOPROXY="off", GOSUMDB="off", GOTOOLCHAIN="local")


class Machinery(Exception):
    """The verification machinery itself failed (exit 2), never a violation."""


def log(*a):
    print(*a, file=sys.stderr, flush=True)


def run_dir(tag):
    d = os.path.join(WORK, "%s-%d-%d" % (tag, os.getpid(), int(time.time() * 1000) % 100000000))
    os.makedirs(d, exist_ok=True)
    return d


def goenv():
    e = dict(os.environ)
    e.update(GOENV)
    if os.environ.get("VERIF_COVERDIR"):
        e["GOCOVERDIR"] = os.environ["VERIF_COVERDIR"]
    return e


_built = {}


def build_harness(race=False):
    """Builds the harness against the current working tree of the repository."""
    key = "race" if race else "plain"
    if key in _built:
        return _built[key]
    os.makedirs(os.path.join(WORK, "bin"), exist_ok=True)
    out = os.path.join(WORK, "bin", "harness-" + key + "-%d" % os.getpid())
    modfile = []
    if REPO != "/repo":
        # scratch copy of the repository (development only): own go.mod with another replace
        gm = open(os.path.join(HARNESS_SRC, "go.mod")).read().replace("=> /repo", "=> " + REPO)
        alt = os.path.join(WORK, "bin", "go.alt.%d.mod" % os.getpid())
        open(alt, "w").write(gm)
        shutil.copy(os.path.join(HARNESS_SRC, "go.sum"), alt[:-4] + ".sum")
        modfile = ["-modfile=" + alt]
    cover = []
    if os.environ.get("VERIF_COVERDIR"):
        # development aid: statement coverage of the library by the conformance runs (GOCOVERDIR = VERIF_COVERDIR)
        cover = ["-cover", "-coverpkg=github.com/veraison/psatoken,github.com/veraison/psatoken/encoding"]
    cmd = ["go", "build"] + modfile + ["-tags", "verif"] + (["-race"] if race else []) + cover + ["-o", out, "."]
    t0 = time.time()
    p = subprocess.run(cmd, cwd=HARNESS_SRC, env=goenv(), capture_output=True, text=True)
    if p.returncode != 0:
        raise Machinery("harness build failed:\n" + p.stdout + p.stderr)
    log("[build] harness (%s) %.1fs" % (key, time.time() - t0))
    _built[key] = out
    return out


def cleanup_built():
    for p in _built.values():
        try:
            os.remove(p)
        except OSError:
            pass


def _limit_as(gib):
    import resource

    def f():
        resource.setrlimit(resource.RLIMIT_AS, (gib << 30, gib << 30))
    return f


def harness_guarded(args, timeout=3600, mem_gib=6, max_crashes=6):
    """Runs a driver whose inputs may make the library exhaust memory or hang: the driver runs under an
    address-space limit with a per-case watchdog and records which case it is about to execute (-marker).
    When the worker dies the case that killed it is recorded and a new worker resumes AFTER it (earlier
    cases are fast-forwarded, not re-executed); each death becomes a synthesized event with outcome
    oom / timeout / crash, which the judge rejects. After max_crashes deaths the run stops there.
    Returns (stats, crashed) with stats aggregated over the workers."""
    exe = build_harness()
    marker = os.path.join(WORK, "marker-%d" % os.getpid())
    crashed, files, total = [], [], dict(events=0, behaviours=0, distinct_nontrivial=0, samples=[])
    out_ix = args.index("-out") + 1
    base_out = str(args[out_ix])
    resume = 0
    for attempt in range(max_crashes + 1):
        if os.path.exists(marker):
            os.remove(marker)
        a2 = [str(a) for a in args]
        a2[out_ix] = "%s.w%d" % (base_out, attempt)
        cmd = [exe] + a2 + ["-marker", marker, "-resume", str(resume)]
        t0 = time.time()
        p = subprocess.run(cmd, capture_output=True, text=True, timeout=timeout, env=goenv(), preexec_fn=_limit_as(mem_gib))
        done = [f for f in sorted(os.listdir(os.path.dirname(base_out))) if f.startswith(os.path.basename(base_out) + ".w%d." % attempt)]
        files += [os.path.join(os.path.dirname(base_out), f) for f in done]
        if p.returncode == 0:
            for line in p.stdout.splitlines():
                if line.startswith("STATS "):
                    st = json.loads(line[6:])
                    for k in ("events", "behaviours", "distinct_nontrivial"):
                        total[k] += st.get(k, 0)
                    total["samples"] += st.get("samples") or []
                    for k, v in st.items():
                        if k not in total:
                            total[k] = v
            break
        kind = "timeout" if p.returncode == 97 else ("oom" if ("out of memory" in p.stderr or "cannot allocate" in p.stderr) else "crash")
        if not os.path.exists(marker):
            raise Machinery("harness %s died (%s) outside a marked case:\n%s" % (args[0], kind, p.stderr[:600]))
        idx = int(open(marker).read().split()[0])
        log("[run] harness %s died (%s) in case %d after %.0fs; resuming after it" % (args[0], kind, idx, time.time() - t0))
        crashed.append((idx, kind))
        resume = idx + 1
    # the events of a dead worker are on disk up to its last flush; count lines
    total["events"] = 0
    for f in files:
        total["events"] += sum(1 for _ in open(f))
    if crashed:
        deaths = "%s.deaths.0.ndjson" % base_out
        with open(deaths, "w") as f:
            for idx, kind in crashed:
                f.write(json.dumps(dict(b=idx, i=0, op="Bytes", entry="(worker)", kind="worker-death", len=0, out=kind, follow=[],
                                        allocKB=0, ms=0, input=[], key=[], val=[], keys=[])) + "\n")
        files.append(deaths)
        total["events"] += len(crashed)
    total["files"] = files
    log("[run] harness %s guarded: events=%d worker deaths=%d" % (args[0], total["events"], len(crashed)))
    return total, crashed


def harness(args, race=False, timeout=3600, env=None, allow_fail=False):
    """Runs a harness driver; returns (stats dict from the STATS line, stdout)."""
    exe = build_harness(race)
    e = goenv()
    if env:
        e.update(env)
    t0 = time.time()
    try:
        p = subprocess.run([exe] + [str(a) for a in args], capture_output=True, text=True, timeout=timeout, env=e)
    except subprocess.TimeoutExpired:
        raise Machinery("harness %s timed out after %ds" % (args[0], timeout))
    if p.returncode != 0 and not allow_fail:
        raise Machinery("harness %s exited %d:\n%s\n%s" % (args[0], p.returncode, p.stdout[-1500:], p.stderr[:1500]))
    stats = None
    for line in p.stdout.splitlines():
        if line.startswith("STATS "):
            stats = json.loads(line[6:])
    log("[run] harness %s %.1fs %s" % (" ".join(str(a) for a in args[:6]), time.time() - t0,
                                        ("events=%d" % stats["events"]) if stats and "events" in stats else ""))
    if allow_fail:
        return stats, p
    if stats is None:
        raise Machinery("harness %s printed no STATS line:\n%s" % (args[0], p.stdout[-2000:]))
    return stats, p.stdout


_STATE_RE = re.compile(r"(\d+) states generated, (\d+) distinct states found, (\d+) states left on queue")


def tlc(module, cfg, env=None, workers=1, timeout=1700, xmx="8g", extra=None, tag=None, simulate=None):
    """Runs TLC on spec/<module>.tla with spec/<cfg> in a scratch directory.
    Returns dict(ok, generated, distinct, out, error, wd)."""
    wd = run_dir(tag or module)
    for f in os.listdir(SPEC):
        if f.endswith(".tla") or f.endswith(".cfg") or f.endswith(".json"):
            shutil.copy(os.path.join(SPEC, f), wd)
    cmd = ["java", "-XX:+UseParallelGC"] + (["-XX:ParallelGCThreads=2"] if workers == 1 else []) + ["-Xmx" + xmx, "-Xss64m", "-cp", TLA_CP, "tlc2.TLC",
           "-workers", str(workers), "-metadir", os.path.join(wd, "md"), "-config", cfg]
    if simulate:
        cmd += ["-simulate", simulate]
    cmd += (extra or []) + [module + ".tla"]
    e = dict(os.environ)
    e.pop("JAVA_TOOL_OPTIONS", None)
    if env:
        e.update({k: str(v) for k, v in env.items()})
    t0 = time.time()
    try:
        p = subprocess.run(cmd, cwd=wd, env=e, capture_output=True, text=True, timeout=timeout)
    except subprocess.TimeoutExpired:
        shutil.rmtree(wd, ignore_errors=True)
        raise Machinery("TLC %s/%s timed out after %ds" % (module, cfg, timeout))
    out = p.stdout + p.stderr
    gen = dist = 0
    for m in _STATE_RE.finditer(out):
        gen, dist = int(m.group(1)), int(m.group(2))
    ok = "Model checking completed. No error has been found." in out or (simulate is not None and p.returncode == 0)
    err = None
    if not ok:
        lines = [x for x in out.splitlines() if not x.startswith(("Parsing", "Semantic", "Linting"))]
        err = "\n".join(lines[:25] + ["..."] + lines[-40:]) if len(lines) > 70 else "\n".join(lines)
        os.makedirs(os.path.join(WORK, "logs"), exist_ok=True)
        with open(os.path.join(WORK, "logs", "tlc-fail-%s-%d.log" % (module, int(time.time()))), "w") as lf:
            lf.write(" ".join(cmd) + "\n" + out)
    log("[tlc] %s/%s %.1fs generated=%d distinct=%d %s" % (module, cfg, time.time() - t0, gen, dist, "ok" if ok else "FAILED"))
    return dict(ok=ok, generated=gen, distinct=dist, out=out, error=err, wd=wd, rc=p.returncode)


def mc(module, cfg, workers=16, timeout=1700, xmx="16g", coverage=False):
    """Model-checks a bounded instance; a violated invariant of the *model* is a machinery
    failure (the design is wrong or the spec is), never a code violation."""
    for attempt in range(4):
        # TLC's multi-worker mode has a benign race on lazily normalised shared record values
        # ("Attempted to select nonexistent field ... from the record" that has the field): it surfaces
        # as an unexpected exception; a failed run is repeated, the last attempt with a single worker
        r = tlc(module, cfg, workers=(workers if attempt < 3 else 1), timeout=timeout, xmx=xmx,
                extra=(["-coverage", "1"] if coverage else None))
        shutil.rmtree(r["wd"], ignore_errors=True)
        if r["ok"]:
            break
        log("[tlc] %s/%s failed on attempt %d, repeating (last attempt single-worker)" % (module, cfg, attempt + 1))
    if not r["ok"]:
        raise Machinery("model check %s/%s failed:\n%s" % (module, cfg, r["error"]))
    return dict(module=module, cfg=cfg, states=r["distinct"], transitions=r["generated"])


def apalache_inductive(module, init, inv, nxt, cinit, timeout=900):
    """Apalache: Init => Inv (length 0) and Inv /\\ Next => Inv' (length 1) for the constants fixed by cinit.
    A failure is a defect of the specification (exit 2), never a code violation."""
    wd = run_dir("apalache-" + module)
    for f in os.listdir(SPEC):
        if f.endswith(".tla"):
            shutil.copy(os.path.join(SPEC, f), wd)
    t0 = time.time()
    try:
        for (i, length) in ((init, 0), (inv, 1)):
            cmd = ["apalache-mc", "check", "--cinit=" + cinit, "--init=" + i, "--inv=" + inv, "--next=" + nxt, "--length=%d" % length,
                   "--out-dir=" + os.path.join(wd, "out"), module + ".tla"]
            try:
                p = subprocess.run(cmd, cwd=wd, capture_output=True, text=True, timeout=timeout)
            except subprocess.TimeoutExpired:
                raise Machinery("apalache %s timed out" % module)
            if "The outcome is: NoError" not in p.stdout:
                raise Machinery("apalache %s (%s, length %d) failed:\n%s" % (module, i, length, p.stdout[-2500:]))
    finally:
        shutil.rmtree(wd, ignore_errors=True)
    log("[apalache] %s: %s inductive for %s (%.1fs)" % (module, inv, cinit, time.time() - t0))
    return dict(module=module, cfg="apalache --cinit=%s: %s => %s; %s /\\ %s => %s'" % (cinit, init, inv, inv, nxt, inv), states=1, transitions=1,
                tool="apalache 0.58.0 (symbolic, inductive invariant)")


def _kill_by_path(path):
    """kills every process whose command line mentions path (provers started for a scratch directory)"""
    for pid in os.listdir("/proc"):
        if not pid.isdigit() or int(pid) == os.getpid():
            continue
        try:
            cmd = open("/proc/%s/cmdline" % pid, "rb").read().decode("utf-8", "replace")
        except OSError:
            continue
        try:
            cwd = os.readlink("/proc/%s/cwd" % pid)
        except OSError:
            cwd = ""
        if path in cmd or cwd.startswith(path):
            try:
                os.kill(int(pid), 9)
            except OSError:
                pass


def tlaps(module, expect_min=10, timeout=900):
    """TLAPS: every proof obligation of the module must be discharged. A failure is a defect of the
    specification or of the proof (exit 2), never a code violation."""
    wd = run_dir("tlaps-" + module)
    for f in os.listdir(SPEC):
        if f.endswith(".tla"):
            shutil.copy(os.path.join(SPEC, f), wd)
    t0 = time.time()
    try:
        m, out = None, ""
        for stretch in ("3", "12"):       # back-end time limits are wall clock: a loaded machine gets a second, slower try
            shutil.rmtree(os.path.join(wd, ".tlacache"), ignore_errors=True)
            # own process group, killed afterwards: back-end provers (z3, zenon, isabelle) must not outlive the run
            pr = subprocess.Popen(["tlapm", "--threads", "8", "--stretch", stretch, module + ".tla"], cwd=wd, stdout=subprocess.PIPE,
                                  stderr=subprocess.STDOUT, text=True, start_new_session=True)
            try:
                out, _ = pr.communicate(timeout=timeout)
            except subprocess.TimeoutExpired:
                raise Machinery("tlapm %s timed out" % module)
            finally:
                try:
                    os.killpg(pr.pid, 9)
                except OSError:
                    pass
                _kill_by_path(wd)
            m = re.search(r"All (\d+) obligations? proved", out)
            if m and int(m.group(1)) >= expect_min:
                break
        if not m or int(m.group(1)) < expect_min:
            raise Machinery("tlapm %s: not all obligations proved:\n%s" % (module, out[-2500:]))
        n = int(m.group(1))
    finally:
        shutil.rmtree(wd, ignore_errors=True)
    log("[tlaps] %s: all %d obligations proved (%.1fs)" % (module, n, time.time() - t0))
    return dict(module=module, cfg="tlapm: %d proof obligations, arbitrary constants" % n, states=1, transitions=1,
                tool="TLAPS 1.6.0-pre (deductive proof)")


def gen_export(module, cfg, name):
    """gen step: TLC evaluates the specification's tables and writes them as JSON."""
    out = os.path.join(WORK, "%s-%d.json" % (name, os.getpid()))
    r = tlc(module, cfg, env=dict(OUT=out), workers=1, timeout=600, xmx="4g")
    shutil.rmtree(r["wd"], ignore_errors=True)
    if not r["ok"] or not os.path.exists(out):
        raise Machinery("gen %s failed:\n%s" % (module, r["error"]))
    return out


def gen_sim(module, cfg, name, num, depth, seed, procs=8):
    """gen step: TLC simulates behaviours of the specification (procs parallel TLC processes with
    distinct seeds); each behaviour is one JSON line. Returns the concatenated file."""
    out = os.path.join(WORK, "%s-%d.ndjson" % (name, os.getpid()))
    per = max(1, (num + procs - 1) // procs)

    def one(k):
        o = "%s.%d" % (out, k)
        r = tlc(module, cfg, env=dict(OUT=o), workers=1, timeout=900, xmx="2g", tag="%s-sim%d" % (module, k),
                simulate="num=%d" % per, extra=["-depth", str(depth), "-seed", str(seed * 1000 + k)])
        shutil.rmtree(r["wd"], ignore_errors=True)
        if not r["ok"] or not os.path.exists(o):
            raise Machinery("simulation %s failed:\n%s" % (module, r["error"] or r["out"][-2000:]))
        return o, r["generated"]

    with ThreadPoolExecutor(max_workers=procs) as ex:
        parts = list(ex.map(one, range(procs)))
    n = 0
    with open(out, "w") as w:
        for o, _ in parts:
            with open(o) as f:
                for line in f:
                    w.write(line)
                    n += 1
            os.remove(o)
    log("[gen] %s: %d behaviours simulated" % (module, n))
    return out, n


def open_finding_ids(prop):
    p = os.path.join(VERIF, "known_findings.json")
    if not os.path.exists(p):
        return []
    return sorted(k["id"] for k in json.load(open(p)) if prop in k.get("properties", [k.get("property")]) and k.get("status") == "open")


def judge(module, files, par=8, timeout=1700, xmx="6g", cfg=None, prop=None, mode=None):
    """Validates recorded trace files against the trace spec <module>. Returns
    dict(n, bad=[(file, index, event)], states, extra=[verdict records])."""
    cfg = cfg or (module + ".cfg")

    def one(path):
        wd_tag = module + "-" + os.path.basename(path)
        out = os.path.join(WORK, "verdict-%d-%s.json" % (os.getpid(), os.path.basename(path)))
        if os.path.exists(out):
            os.remove(out)
        kfp = out + ".kf"
        with open(kfp, "w") as kf_:
            json.dump(dict(open=open_finding_ids(prop) if prop else []), kf_)
        r = tlc(module, cfg, env=dict(TRACE=path, OUT=out, KF=kfp, **({"MODE": mode} if mode else {})), workers=1, timeout=timeout, xmx=xmx, tag=wd_tag)
        shutil.rmtree(r["wd"], ignore_errors=True)
        if not r["ok"]:
            raise Machinery("judge %s on %s failed:\n%s" % (module, path, r["error"]))
        if not os.path.exists(out):
            raise Machinery("judge %s on %s wrote no verdict" % (module, path))
        v = json.load(open(out))
        os.remove(out)
        os.remove(kfp)
        v["_file"] = path
        v["_states"] = r["distinct"]
        return v

    with ThreadPoolExecutor(max_workers=par) as ex:
        verdicts = list(ex.map(one, files))
    res = dict(n=0, bad=[], states=0, verdicts=verdicts, kf=[])
    for v in verdicts:
        nlines = sum(1 for _ in open(v["_file"]))
        if v["n"] != nlines:
            raise Machinery("judge consumed %d of %d events of %s" % (v["n"], nlines, v["_file"]))
        res["n"] += v["n"]
        res["states"] += v["_states"]
        kfmap = {x["i"]: x["ids"] for x in v.get("kf", [])}
        if v["bad"] or kfmap:
            want = set(v["bad"])
            with open(v["_file"]) as f:
                for i, line in enumerate(f, 1):
                    if i in want:
                        res["bad"].append((v["_file"], i, json.loads(line)))
                    elif i in kfmap:
                        res["kf"].append((v["_file"], i, sorted(kfmap[i]), json.loads(line) if len(res["kf"]) < 200 else None))
    return res


# ---------------------------------------------------------------------------
# known findings

def load_known(prop):
    p = os.path.join(VERIF, "known_findings.json")
    if not os.path.exists(p):
        return []
    return [k for k in json.load(open(p)) if prop in k.get("properties", [k.get("property")]) and k.get("status") == "open"]


def _get(ev, path):
    cur = ev
    for part in path.split("."):
        if isinstance(cur, dict) and part in cur:
            cur = cur[part]
        elif isinstance(cur, list) and part.isdigit() and int(part) < len(cur):
            cur = cur[int(part)]
        else:
            return None
    return cur


def match_known(known, ev):
    for k in known:
        if all(_get(ev, path) == val for path, val in k["match"].items()):
            return k
    return None


# ---------------------------------------------------------------------------
# verdicts, replay files, evidence

def _silent_remove(p):
    try:
        os.remove(p)
    except OSError:
        pass


def strip_h(x):
    if isinstance(x, dict):
        return {k: strip_h(v) for k, v in x.items() if k != "h"}
    if isinstance(x, list):
        return [strip_h(v) for v in x]
    return x


class Check:
    def __init__(self, prop, tier, seed):
        self.prop, self.tier, self.seed = prop, tier, seed
        self.t0 = time.time()
        self.models = []          # model-check results
        self.judged = []          # judge results
        self.violations = []      # (event, note)
        self.known_hits = {}
        self.cov = dict(evaluations=0, distinct_nontrivial=0, samples=[], traces_validated_against_impl=0)
        self.rule = ""
        self.assumptions = []
        self.extra = {}
        self.exhaustive = False
        self.technique_note = ""
        os.makedirs(WORK, exist_ok=True)
        self.dir = run_dir(prop)

    def path(self, name):
        return os.path.join(self.dir, name)

    def add_model(self, m):
        self.models.append(m)

    def add_stats(self, stats):
        self.cov["evaluations"] += stats.get("events", 0)
        self.cov["distinct_nontrivial"] += stats.get("distinct_nontrivial", 0)
        self.cov["traces_validated_against_impl"] += stats.get("behaviours", 0)
        for s in stats.get("samples", [])[:3]:
            if len(self.cov["samples"]) < 6:
                self.cov["samples"].append(strip_h(s))

    def run_and_judge(self, hargs, module, race=False, par=10, keep=False, env=None, timeout=3600, xmx="6g", mode=None, guarded=False):
        """harness driver -> trace files -> TLC judge; collects divergences."""
        if guarded:
            stats, crashed = harness_guarded(hargs, timeout=timeout)
            self.extra["worker_deaths"] = self.extra.get("worker_deaths", 0) + len(crashed)
        else:
            stats, _ = harness(hargs, race=race, env=env, timeout=timeout)
        files = stats["files"]
        if stats["events"] == 0:
            raise Machinery("driver %s produced an empty trace" % hargs[0])
        res = judge(module, files, par=par, prop=self.prop, xmx=xmx, mode=mode)
        if res["n"] != stats["events"]:
            raise Machinery("judge saw %d events, driver wrote %d" % (res["n"], stats["events"]))
        if res["bad"] and not guarded and os.environ.get("VERIF_NO_CONFIRM") != "1":
            # before anything is reported the failing run is repeated in a fresh process: only divergences
            # that show up again (same abstract event) are reported; none => the machinery is at fault
            sig = lambda e: json.dumps({k: v for k, v in strip_h(e).items() if k not in ("b", "i")}, sort_keys=True)
            first = {sig(ev) for (_, _, ev) in res["bad"]}
            for f in files:
                _silent_remove(f)
            for attempt in range(3):    # (behaviour that depends on the Go scheduler / allocator may need more than one try)
                stats2, _ = harness(hargs, race=race, env=env, timeout=timeout)
                res2 = judge(module, stats2["files"], par=par, prop=self.prop, xmx=xmx, mode=mode)
                again = [(f, i, ev) for (f, i, ev) in res2["bad"] if sig(ev) in first]
                log("[confirm] %d of %d divergent events reproduced in a fresh process" % (len(again), len(res2["bad"])))
                if again or res2["bad"] or attempt == 2:
                    break
                for f in stats2["files"]:
                    _silent_remove(f)
            if not again and not res2["bad"]:
                raise Machinery("%d divergent events did not reproduce in a fresh process" % len(res["bad"]))
            res["bad"] = again if again else res2["bad"]
            files = stats2["files"]
        self.add_stats(stats)
        self.judged.append(dict(module=module, events=res["n"], states=res["states"], driver=" ".join(str(a) for a in hargs)))
        allk = {k["id"]: k for k in (json.load(open(os.path.join(VERIF, "known_findings.json")))
                                     if os.path.exists(os.path.join(VERIF, "known_findings.json")) else [])}
        for (f, i, ids, ev) in res["kf"]:
            for fid in ids:
                self.known_hits.setdefault(fid, [allk[fid], 0])[1] += 1
        known = [k for k in load_known(self.prop) if k.get("match")]
        for (f, i, ev) in res["bad"]:
            k = match_known(known, ev)
            if k:
                self.known_hits.setdefault(k["id"], [k, 0])[1] += 1
            else:
                self.violations.append((ev, "%s event %d of %s" % (module, i, os.path.basename(f)), hargs))
        if not keep:
            for f in files:
                try:
                    os.remove(f)
                except OSError:
                    pass
        return stats, res

    def finish(self):
        wall = time.time() - self.t0
        states = sum(m["states"] for m in self.models) + sum(j["states"] for j in self.judged)
        transitions = sum(m["transitions"] for m in self.models) + sum(j["states"] for j in self.judged)
        cov = dict(self.cov)
        cov.update(states=states, transitions=transitions, rule=self.rule, exhaustive=self.exhaustive,
                   models=self.models, judges=self.judged)
        cov.update(self.extra)
        if not cov["samples"]:
            cov["samples"] = ["(no sample recorded)"]
        ev = dict(property_id=self.prop, tier=self.tier, seed=self.seed, level="model_checking", coverage=cov,
                  assumptions=self.assumptions, wall_s=round(wall, 2), violations=len(self.violations),
                  known_findings=[dict(id=k["id"], hits=n) for k, n in self.known_hits.values()])
        evdir = os.environ.get("VERIF_EVIDENCE_DIR", os.path.join(VERIF, "evidence"))   # (development: mutant runs write elsewhere)
        os.makedirs(evdir, exist_ok=True)
        with open(os.path.join(evdir, self.prop + ".json"), "w") as f:
            json.dump(ev, f, indent=1, sort_keys=True)
            f.write("\n")
        for k, n in self.known_hits.values():
            print("KNOWN-FINDING: property=%s %s (%s; %d matching events)" % (self.prop, k["what"], k["id"], n))
        rc = 0
        if self.violations:
            os.makedirs(os.path.join(OUT, "replay"), exist_ok=True)
            seen = set()
            for ev_, note, hargs in self.violations[:50]:
                body = json.dumps(strip_h(ev_), sort_keys=True)
                h = hashlib.sha256(body.encode()).hexdigest()[:12]
                if h in seen:
                    continue
                seen.add(h)
                rp = os.path.join(OUT, "replay", "%s-%s.json" % (self.prop, h))
                with open(rp, "w") as f:
                    json.dump(dict(property=self.prop, tier=self.tier, seed=self.seed, where=note,
                                   driver=[str(a) for a in hargs], event=ev_, signature=h), f, indent=1)
                print("VIOLATION property=%s replay=%s" % (self.prop, rp))
            log("[verdict] %s: %d divergent events (%d distinct shown)" % (self.prop, len(self.violations), len(seen)))
            rc = 1
        else:
            log("[verdict] %s %s seed=%d: held on %d evaluations (%d states) in %.1fs" %
                (self.prop, self.tier, self.seed, cov["evaluations"], states, wall))
        shutil.rmtree(self.dir, ignore_errors=True)
        return rc
