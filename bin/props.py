"""One function per property: what is model-checked, what is run against the real code,
and which trace spec judges it.  (DESIGN.md section 3.)"""
import vlib
from vlib import Machinery

TRUST = [
    "TLC 1.8.0 evaluates the TLA+ operators correctly",
    "the harness's abstraction function Abs and its concretisation (harness/abs.go) contain no rule of the library",
    "go toolchain; for signature properties go-cose's arithmetic is exercised, not modelled",
]


def C14(ck):
    ck.rule = ("all 65 536 lifecycle values, one event each: mapping, validity, name, validator, both profiles' setter, "
               "getter after the setter, getter on a literal and on a JSON-decoded claims-set; non-trivial = value within 1 of "
               "a range boundary (v mod 4096 in {0,255,256,4095})")
    ck.assumptions = TRUST
    ck.exhaustive = True
    ck.add_model(vlib.mc("MC_Claims", "MC_Claims_lc.cfg"))
    stats, res = ck.run_and_judge(["lc", "-out", ck.path("lc")], "Trace_LC")
    for v in res["verdicts"]:
        if not v.get("cover") or v.get("nvalid") != 1792 and not res["bad"]:
            if not v.get("cover"):
                raise Machinery("coverage post-condition failed: trace is not the 65 536 values in order")


def _claims_models(ck):
    ck.add_model(vlib.mc("MC_Claims", "MC_Claims_setters.cfg"))
    ck.add_model(vlib.mc("MC_Claims", "MC_Claims_decoded.cfg"))


def _need_both_polarities(res, what):
    acc = sum(v.get("accepted", 0) for v in res["verdicts"])
    rej = sum(v.get("rejected", 0) for v in res["verdicts"])
    if acc == 0 or rej == 0:
        raise Machinery("vacuous %s run: accepted=%d rejected=%d" % (what, acc, rej))
    return acc, rej


def C01(ck):
    ck.rule = ("claims-sets enumerated from the class tables TLC exports from spec/Gen_Claims.tla: all singles over the fine "
               "value domain on three bases (built as literal, through JSON and through CBOR), all pairs, triples (sampled in "
               "quick, all in thorough), byte-string lengths 0..80 x first-byte class x 3 contexts, the complete single-edit "
               "neighbourhood of both reference shapes, component lists (0..2 entries over every field combination, every "
               "deviation at every position of 3..4), random points of the product; each event = Validate + ten getters on the "
               "real object, judged by Trace_Claims against PsaClaims!Valid / GetterRets; non-trivial = rejected by validation "
               "or more than one component; distinct = distinct abstract object + results")
    ck.assumptions = TRUST
    _claims_models(ck)
    dom = vlib.gen_export("Gen_Claims", "Gen_Claims.cfg", "domains")
    hist, nh = vlib.gen_sim("Sim_Claims", "Sim_Claims.cfg", "hist", 300 if ck.tier == "quick" else 5000, 45, ck.seed)
    try:
        stats, res = ck.run_and_judge(["claims-read", "-seed", ck.seed, "-tier", ck.tier, "-in", dom, "-in2", vlib.REPO + "/testvectors/json",
                                       "-out", ck.path("cr")], "Trace_Claims")
        # "the verdict depends on nothing else": validation inside setter / outside-mutation histories
        ck.run_and_judge(["claims-hist", "-seed", ck.seed, "-in", hist, "-out", ck.path("ch")], "Trace_Claims")
    finally:
        _rm(dom, hist)
    acc, rej = _need_both_polarities(res, "C01")
    ck.extra.update(accepted=acc, rejected=rej, by_source=stats.get("by_source"), skipped_builds=stats.get("skipped_builds"))


def _rm(*paths):
    import os
    for p in paths:
        try:
            os.remove(p)
        except OSError:
            pass


def C11(ck):
    ck.rule = ("(a) every setter of both profiles x byte lengths 0..80 x first-byte classes, the complete reference-shape "
               "neighbourhood, lifecycle / client-id / VSI classes, 649 component lists and nil, on three pre-states (fresh, fully "
               "valid, decoded-invalid); component setters over lengths 0..80; (b) setter histories of 40 operations simulated by TLC "
               "from spec/Sim_Claims.tla (valid and invalid interleaved, SetSw / Add / nil / outside mutation of a stored component), "
               "each replayed on a real claims-set, every step judged against PsaClaims!SetF / SetSwF / AddSwF, plus the canonical "
               "replay (last successful value per claim, fixed order) compared on projection and on both encodings; "
               "non-trivial = every setter step (distinct by abstract pre-state, argument and result)")
    ck.assumptions = TRUST
    ck.add_model(vlib.mc("MC_Claims", "MC_Claims_setters.cfg"))
    dom = vlib.gen_export("Gen_Claims", "Gen_Claims.cfg", "domains")
    nb = 800 if ck.tier == "quick" else 20000
    hist, n = vlib.gen_sim("Sim_Claims", "Sim_Claims.cfg", "hist", nb, 45, ck.seed, procs=8 if ck.tier == "quick" else 16)
    try:
        ck.run_and_judge(["claims-sweep", "-seed", ck.seed, "-in", dom, "-out", ck.path("cs")], "Trace_Claims")
        stats, res = ck.run_and_judge(["claims-hist", "-seed", ck.seed, "-in", hist, "-out", ck.path("ch")], "Trace_Claims")
        ops = set()
        for v in res["verdicts"]:
            ops |= set(v.get("ops", []))
        if not {"Set", "SetSw", "AddSw", "Read", "Canon", "Ext"} <= ops:
            raise Machinery("history trace lacks operations: %s" % sorted(ops))
        ck.extra.update(histories=n)
    finally:
        _rm(dom, hist)


def C13(ck):
    ck.rule = ("error classes (errors.Is against the five sentinels) of validation and of every getter on the C01 enumeration "
               "(singles = exact class, pairs / triples / random = class of some offending claim), of every setter and component "
               "getter of the C11 sweep, and FilterError over all 7 605 wrapping chains (13 bases x <=3 wrappers from %w, %v, "
               "errors.Join, custom Unwrap, multi-Unwrap, two %w, Is-method) TLC enumerates from spec/Gen_Errors.tla; "
               "non-trivial = an error was returned")
    ck.assumptions = TRUST + ["errors.Is of the Go standard library computes the class set of an error value"]
    ck.add_model(vlib.mc("MC_Claims", "MC_Claims_decoded.cfg"))
    dom = vlib.gen_export("Gen_Claims", "Gen_Claims.cfg", "domains")
    chains = vlib.gen_export("Gen_Errors", "Gen_Errors.cfg", "chains")
    try:
        ck.run_and_judge(["filter", "-in", chains, "-out", ck.path("fl")], "Trace_Claims")
        ck.run_and_judge(["claims-sweep", "-seed", ck.seed, "-in", dom, "-out", ck.path("cs")], "Trace_Claims")
        n = 2000 if ck.tier == "quick" else 50000
        stats, res = ck.run_and_judge(["claims-read", "-seed", ck.seed, "-tier", ck.tier, "-n", n, "-in", dom, "-in2", vlib.REPO + "/testvectors/json",
                                       "-out", ck.path("cr")], "Trace_Claims")
        _need_both_polarities(res, "C13")
    finally:
        _rm(dom, chains)


def C18(ck):
    ck.rule = ("read-side batteries (Validate + ten getters, twice) on every claims-set of the C01 enumeration with a deep "
               "reflection snapshot (unexported fields, nil vs empty) and both encodings taken before and after; the Read steps of "
               "TLC-simulated setter histories; decode (4 entry points) then overwrite the input buffer and re-read; "
               "Evidence: TLC-simulated histories in which every Verify is repeated and deep-snapshotted and every decoded token "
               "buffer is overwritten before the state is projected; non-trivial = as C01")
    ck.assumptions = TRUST
    ck.add_model(vlib.mc("MC_Claims", "MC_Claims_decoded.cfg"))
    dom = vlib.gen_export("Gen_Claims", "Gen_Claims.cfg", "domains")
    hist, n = vlib.gen_sim("Sim_Claims", "Sim_Claims.cfg", "hist", 400 if ck.tier == "quick" else 8000, 45, ck.seed)
    try:
        ck.run_and_judge(["claims-scribble", "-seed", ck.seed, "-in", dom, "-out", ck.path("sc")], "Trace_Claims")
        ck.run_and_judge(["claims-hist", "-seed", ck.seed, "-in", hist, "-out", ck.path("ch")], "Trace_Claims")
        nr = 3000 if ck.tier == "quick" else 60000
        ck.run_and_judge(["claims-read", "-seed", ck.seed, "-tier", ck.tier, "-n", nr, "-in", dom, "-out", ck.path("cr")], "Trace_Claims")
    finally:
        _rm(dom, hist)
    # the Evidence half: Verify repeated / snapshotted, decode then overwrite the token buffer
    _ev_hist(ck, 200 if ck.tier == "quick" else 4000)


def C04(ck):
    ck.rule = ("CBOR claims maps assembled by the harness's independent encoder from the per-key item classes TLC exports from "
               "spec/Gen_Wire.tla (absent, null, undefined, every boundary class of the right type, every wrong major type, "
               "out-of-width integers, floats of three widths, arrays of small integers, tagged, indefinite-length, nested forms; "
               "component maps with deviating / unknown / text keys): all singles on three base tokens per profile, all pairs, the "
               "dispatch selector, unknown extra keys (alone, pairs, up to 300), mixed-profile key sets, key-order permutations, "
               "indefinite root, random combinations; each token goes through DecodeClaimsFromCBOR and "
               "DecodeAndValidateClaimsFromCBOR; the bytes are projected by the independent reader and the verdict / decoded values "
               "are judged against PsaWire!DispatchCBOR / DecodeTok / Valid; encodings the property leaves open evaluate to 'open'; "
               "non-trivial = rejected token or one with extra entries")
    ck.assumptions = TRUST + ["the independent CBOR encoder / reader harness/cborx"]
    _wire_model(ck)
    dom = vlib.gen_export("Gen_Claims", "Gen_Claims.cfg", "domains")
    wire = vlib.gen_export("Gen_Wire", "Gen_Wire.cfg", "wire")
    try:
        stats, res = ck.run_and_judge(["wire-decode", "-seed", ck.seed, "-tier", ck.tier, "-chunk", 4000, "-in", wire, "-in2", dom,
                                       "-out", ck.path("wd")], "Trace_Wire", par=12, xmx="3g")
        acc, rej = _need_both_polarities(res, "C04")
        ck.extra.update(accepted=acc, rejected=rej, by_source=stats.get("by_source"))
    finally:
        _rm(dom, wire)


def _wire_model(ck):
    ck.add_model(vlib.mc("MC_Wire", "MC_Wire_small.cfg" if ck.tier == "quick" else "MC_Wire.cfg", timeout=3000))


def _stride(ck, quick, thorough=1):
    return quick if ck.tier == "quick" else thorough


def C09(ck):
    ck.rule = ("(a) the 27 072 valid claims-sets TLC enumerates from spec/Gen_Valid.tla (all optional subsets, hash sizes, 1..4 "
               "components with every optional-field subset, text classes, negative client ids; profile 1 with / without profile and "
               "with the no-measurements flag) plus extension profile X2 - every 5th in quick, all in thorough - built through "
               "setters, as literals, via JSON or via CBOR: encode, decode with the dispatching decoder, compare every getter, "
               "re-encode, compare bytes; (b) every token of the C04 enumeration that decodes (valid or not): encode, decode, compare "
               "getters; judged by Trace_Wire!EncodeCBOROK; non-trivial = invalid set, or valid set (distinct abstract object)")
    ck.assumptions = TRUST + ["the independent CBOR reader harness/cborx"]
    _wire_model(ck)
    dom = vlib.gen_export("Gen_Claims", "Gen_Claims.cfg", "domains")
    wire = vlib.gen_export("Gen_Wire", "Gen_Wire.cfg", "wire")
    valid = vlib.gen_export("Gen_Valid", "Gen_Valid.cfg", "valid")
    try:
        ck.run_and_judge(["wire-encode", "-seed", ck.seed, "-tier", ck.tier, "-n", _stride(ck, 5), "-reg", "X2", "-chunk", 4000,
                          "-in", valid, "-out", ck.path("we"), "cbor"], "Trace_Wire", par=12, xmx="3g")
        ck.run_and_judge(["wire-decode", "-seed", ck.seed, "-tier", ck.tier, "-reg", "X2", "-chunk", 4000, "-in", wire, "-in2", dom,
                          "-out", ck.path("wd"), "rtonly"], "Trace_Wire", par=12, xmx="3g")
    finally:
        _rm(dom, wire, valid)


def C10(ck):
    ck.rule = ("the valid claims-sets of spec/Gen_Valid.tla (every 3rd in quick, all in thorough), built through setters, as literals "
               "and by decoding JSON / CBOR (incl. no-measurement profile-1 tokens, 48/64-byte hashes, all optional component fields): "
               "the output of EncodeClaimsToCBOR / ValidateAndEncodeClaimsToCBOR is parsed by the independent reader and judged against "
               "PsaWire!WireFormatOK (single definite map, no duplicates, exactly the keys of the claims that are set, type and exact "
               "value per key, bare nonce, never list + flag, nothing after the map); the payload of Sign / ValidateAndSign inside "
               "TLC-simulated Evidence histories (claims changed in place or replaced between attach and sign) must be the encoding "
               "of the claims-set attached at that moment (Trace_Evidence!SignF; fresh single sign is covered by C03); "
               "non-trivial = every valid set (distinct abstract object)")
    ck.assumptions = TRUST + ["the independent CBOR reader harness/cborx"]
    _wire_model(ck)
    valid = vlib.gen_export("Gen_Valid", "Gen_Valid.cfg", "valid")
    dom = vlib.gen_export("Gen_Claims", "Gen_Claims.cfg", "domains")
    wire = vlib.gen_export("Gen_Wire", "Gen_Wire.cfg", "wire")
    try:
        ck.run_and_judge(["wire-encode", "-seed", ck.seed, "-tier", ck.tier, "-n", _stride(ck, 3), "-chunk", 4000,
                          "-in", valid, "-out", ck.path("we"), "cbor"], "Trace_Wire", par=12, xmx="3g")
        # "... or obtained by decoding": every token of the C04 enumeration that decodes (unknown keys, non-preferred
        # integer widths, permuted order ...) is encoded again and its encoding judged the same way
        ck.run_and_judge(["wire-decode", "-seed", ck.seed, "-tier", ck.tier, "-chunk", 4000, "-in", wire, "-in2", dom,
                          "-out", ck.path("wd"), "rtonly"] + (["nopairs"] if ck.tier == "quick" else []), "Trace_Wire", par=12, xmx="3g")
    finally:
        _rm(valid, dom, wire)
    # emitted CBOR that leaves inside a token: what is signed is the wire form of the claims-set as it is when signing
    _ev_hist(ck, 200 if ck.tier == "quick" else 3000)


def C12(ck):
    ck.rule = ("the valid claims-sets of spec/Gen_Valid.tla (every 3rd in quick, all in thorough; incl. profile-1 sets without "
               "explicit profile, non-ASCII / control / quote text, negative client ids) and extension profile X2: EncodeClaimsToJSON "
               "output parsed by encoding/json into a generic tree and judged against PsaWire!JsonFormatOK (member names, base64, "
               "omission), decoded by DecodeClaimsFromJSON (dispatch judged against PsaWire!DispatchJSON), getters compared, and "
               "CBOR -> claims -> JSON -> claims -> CBOR compared on bytes; plus documents carrying every class of JSON value per member "
               "(Gen_Json: right / wrong type, base64 or not, integer literals of every form) decoded and judged value for value "
               "against PsaJson!DecodeDoc; non-trivial = every valid set / every deviating document")
    ck.assumptions = TRUST + ["encoding/json of the Go standard library as the independent JSON reader"]
    ck.add_model(vlib.mc("MC_Claims", "MC_Claims_setters.cfg"))
    # design level: the JSON form decodes back to the same claims-set, and to the same one as the CBOR form
    ck.add_model(vlib.mc("MC_Json", "MC_Json_small.cfg" if ck.tier == "quick" else "MC_Json.cfg", timeout=3000))
    valid = vlib.gen_export("Gen_Valid", "Gen_Valid.cfg", "valid")
    try:
        ck.run_and_judge(["wire-encode", "-seed", ck.seed, "-tier", ck.tier, "-n", _stride(ck, 3), "-reg", "X2", "-chunk", 4000,
                          "-in", valid, "-out", ck.path("we"), "json"], "Trace_Wire", par=12, xmx="3g")
    finally:
        _rm(valid)
    # the other direction, beyond what the library itself emits: documents with every class of JSON value per member
    # (spec/Gen_Json.tla) through both JSON decoders, judged value for value against PsaJson!DecodeDoc
    dom = vlib.gen_export("Gen_Claims", "Gen_Claims.cfg", "domains")
    jdom = vlib.gen_export("Gen_Json", "Gen_Json.cfg", "jsondom")
    try:
        ck.run_and_judge(["json-decode", "-seed", ck.seed, "-tier", ck.tier, "-reg", "X2", "-chunk", 3000, "-in", dom, "-in2", jdom,
                          "-out", ck.path("jd")], "Trace_Wire", par=12, xmx="3g", mode="dispatch")
    finally:
        _rm(dom, jdom)


def _registry_models(ck):
    ck.add_model(vlib.mc("MC_Registry", "MC_Registry.cfg"))
    ck.add_model(vlib.mc("MC_Dispatch", "MC_Dispatch.cfg"))


def _reg_hist(ck, n):
    hist, nh = vlib.gen_sim("Sim_Registry", "Sim_Registry.cfg", "rhist", n, 35, ck.seed, procs=8)
    try:
        stats, res = ck.run_and_judge(["reg-hist", "-seed", ck.seed, "-chunk", 3000, "-in", hist, "-out", ck.path("rh")], "Trace_Registry",
                                      par=12, xmx="3g")
        ops = set()
        ok = fail = 0
        for v in res["verdicts"]:
            ops |= set(v.get("ops", []))
            ok += v.get("regOK", 0)
            fail += v.get("regFail", 0)
        if not {"Register", "NewClaims", "Mutate", "DecodeJSON", "DecodeCBOR", "DecodeCOSE"} <= ops or ok == 0 or fail == 0:
            raise Machinery("register histories lack operations / outcomes: %s ok=%d fail=%d" % (sorted(ops), ok, fail))
        ck.extra.update(histories=nh, register_ok=ok, register_failed=fail)
    finally:
        _rm(hist)


def C16(ck):
    ck.rule = ("register / instance histories of 30 operations simulated by TLC from spec/Sim_Registry.tla over 8 names x 4 claims "
               "kinds (profile-1 based, profile-2 based, own JSON profile member, no profile field): register, re-register, NewClaims, "
               "JSON / CBOR dispatching decodes, mutation of one live instance; after EVERY step the harness re-observes the whole "
               "register (hook), 11 lookups, 40 JSON documents (each dispatched 8 times: Go map order) and 16 CBOR tokens, and re-projects "
               "every live instance; judged step by step by Trace_Registry against PsaRegistry!RegisterF / NewClaimsF / DispatchJSON / "
               "DispatchCBOR; MC_Registry proves append-only / failed-register-changes-nothing / only-declaring-tokens-affected / fresh "
               "instances on the bounded model, MC_Dispatch that the dispatch loop equals the order-free function for every iteration "
               "order; non-trivial = every step after Start")
    ck.assumptions = TRUST + ["register snapshot / restore hook (verif_hooks.go) to replay many histories in one process"]
    _registry_models(ck)
    _reg_hist(ck, 160 if ck.tier == "quick" else 3000)
    # discovery of the profile field over a family of claims types (what registration relies on), against PsaCodec!ProfileTag
    dom = vlib.gen_export("Gen_Claims", "Gen_Claims.cfg", "domains")
    try:
        ck.run_and_judge(["codec-shapes", "-seed", ck.seed, "-tier", "quick", "-chunk", 5000, "-in", dom, "-out", ck.path("sh")], "Trace_Codec",
                         par=10, xmx="3g")
    finally:
        _rm(dom)


def C07(ck):
    ck.rule = ("CBOR: the C04 token enumeration with the profile claim present / absent / null / unknown / other profile's / under "
               "both keys and extension profile X2 registered, judged against PsaWire!DispatchCBOR (default profile 1, unregistered "
               "=> error, validated under the declared profile's rules, accepted token reports it); JSON: every valid set's document "
               "(C12 generator) and the 40-document battery of TLC-simulated register histories (0..8 extra profiles, NewClaims(p) "
               "reports p), judged against PsaWire!DispatchJSON; MC_Dispatch proves the loop = the order-free function; "
               "non-trivial = rejected / redirected token or register step")
    ck.assumptions = TRUST
    _registry_models(ck)
    dom = vlib.gen_export("Gen_Claims", "Gen_Claims.cfg", "domains")
    wire = vlib.gen_export("Gen_Wire", "Gen_Wire.cfg", "wire")
    valid = vlib.gen_export("Gen_Valid", "Gen_Valid.cfg", "valid")
    try:
        n = 1500 if ck.tier == "quick" else 60000
        ck.run_and_judge(["wire-decode", "-seed", ck.seed, "-tier", ck.tier, "-n", n, "-reg", "X2", "-chunk", 4000, "-in", wire, "-in2", dom,
                          "-out", ck.path("wd")] + (["nopairs"] if ck.tier == "quick" else []), "Trace_Wire", par=12, xmx="3g", mode="dispatch")
        ck.run_and_judge(["wire-encode", "-seed", ck.seed, "-tier", ck.tier, "-n", _stride(ck, 9, 2), "-reg", "X2", "-chunk", 4000,
                          "-in", valid, "-out", ck.path("we"), "json"], "Trace_Wire", par=12, xmx="3g")
        jdom = vlib.gen_export("Gen_Json", "Gen_Json.cfg", "jsondom")
        try:
            ck.run_and_judge(["json-decode", "-seed", ck.seed, "-tier", ck.tier, "-reg", "X2", "-chunk", 3000, "-in", dom, "-in2", jdom,
                              "-out", ck.path("jd")], "Trace_Wire", par=12, xmx="3g", mode="dispatch")
        finally:
            _rm(jdom)
        _reg_hist(ck, 160 if ck.tier == "quick" else 1000)
    finally:
        _rm(dom, wire, valid)


def _ev_hist(ck, n, allalgs=False, depth=35):
    cfg = "Sim_Evidence_all.cfg" if allalgs else "Sim_Evidence.cfg"
    hist, nh = vlib.gen_sim("Sim_Evidence", cfg, "ehist", n, depth, ck.seed, procs=8 if n < 2000 else 16)
    dom = vlib.gen_export("Gen_Claims", "Gen_Claims.cfg", "domains")
    try:
        stats, res = ck.run_and_judge(["ev-hist", "-seed", ck.seed, "-in", hist, "-in2", dom, "-out", ck.path("eh")], "Trace_Evidence", par=12, xmx="3g")
        tot = {}
        ops = set()
        for v in res["verdicts"]:
            ops |= set(v.get("ops", []))
            for k in ("verifyOK", "verifyFail", "signOK", "signFail"):
                tot[k] = tot.get(k, 0) + v.get(k, 0)
        if not {"SetClaims", "Attach", "Verify", "ValidateAndSign", "Sign", "UnmarshalCOSE"} <= ops or min(tot.values()) == 0:
            raise Machinery("evidence histories lack operations / outcomes: %s %s" % (sorted(ops), tot))
        ck.extra.update(histories=nh, **tot)
    finally:
        _rm(hist, dom)


def C19(ck):
    ck.rule = ("Evidence histories of 30 operations simulated by TLC from spec/Sim_Evidence.tla (SetClaims valid / invalid, attach, "
               "Sign / ValidateAndSign with good, erroring, empty-signature, junk-signature and unsupported-algorithm signers, decode "
               "of honest / payload-swapped / header-swapped / junk-signature / empty-signature / garbage-payload / nil-payload / "
               "non-COSE tokens with every honest signature pre-available, Verify with either key), replayed on one real Evidence with "
               "fresh real keys (ES256 EdDSA PS256 in quick, all seven in thorough); every step judged against PsaEvidence's step "
               "functions, the binding clause also directly; MC_Evidence proves Binding / NoForgery / FailedOpNoToken / "
               "FailedSignThenVerifyFails / GoodSignAlwaysSucceeds / TwoSignsTwoTokens on ALL reachable states of the bounded model "
               "(finite => histories of any length); non-trivial = every step")
    ck.assumptions = TRUST + ["VerifMessage hook exposes the envelope; symbolic signatures: a signature's bytes are projected to Sig(k, a, p) "
                              "through the table of signatures the harness's honest signers produced"]
    ck.add_model(vlib.mc("MC_Evidence", "MC_Evidence_replay.cfg"))
    ck.add_model(vlib.mc("MC_Evidence", "MC_Evidence_small.cfg" if ck.tier == "quick" else "MC_Evidence_full.cfg", timeout=3000))
    # Apalache: Binding / NoForgery / TwoSignsTwoTokens as an inductive invariant for 3 keys x 7 algorithms x 4 claims-sets
    ck.add_model(vlib.apalache_inductive("PsaEvidence", "EInit", "IndInv", "ENext", "ApaConstants"))
    # TLAPS: SigKnown /\ Binding inductive, and => NoForgery, for arbitrary sets of keys / algorithms / claims-sets
    ck.add_model(vlib.tlaps("PsaEvidenceProofs", expect_min=70))
    if ck.tier != "quick":
        # the composition (claims + wire + dispatch + Evidence with real tokens): end-to-end Binding / NoForgery
        ck.add_model(vlib.mc("Psa", "MC_Psa.cfg", timeout=3500, workers=12))
    _ev_hist(ck, 600 if ck.tier == "quick" else 20000, allalgs=ck.tier != "quick")


def C02(ck):
    ck.rule = ("tokens signed by the library with fresh real keys (ES256, EdDSA, PS256 in quick; all seven algorithms in thorough) x 2 "
               "claims-sets: every single-bit flip, truncations, extension, seeded random multi-byte edits (400 / 8000 per token), every "
               "splice of protected x payload x signature across keys, algorithms and claims-sets, re-encoded protected headers "
               "(non-preferred integer, indefinite map), alg only in the unprotected bucket, nil payload, empty signature; each is "
               "decoded and verified with the right and a wrong key; the presented bytes are projected by the independent reader "
               "(payload id, protected-header bytes, signature id via the table of honest signatures) and judged against "
               "PsaEvidence!VerifyOKm; plus Verify steps of TLC-simulated Evidence histories; MC_Evidence proves NoForgery on all "
               "reachable states; non-trivial = every tampered token")
    ck.assumptions = TRUST + ["perfect cryptography in the model; go-cose's arithmetic is exercised, not modelled"]
    ck.add_model(vlib.mc("MC_Evidence", "MC_Evidence_replay.cfg"))
    ck.add_model(vlib.tlaps("PsaEvidenceProofs", expect_min=70))     # NoForgery for arbitrary keys / algorithms / claims-sets
    ck.add_model(vlib.mc("MC_Evidence", "MC_Evidence_small.cfg" if ck.tier == "quick" else "MC_Evidence_full.cfg", timeout=3000))
    dom = vlib.gen_export("Gen_Claims", "Gen_Claims.cfg", "domains")
    try:
        stats, res = ck.run_and_judge(["ev-tamper", "-seed", ck.seed, "-tier", ck.tier, "-chunk", 20000, "-in", dom, "-out", ck.path("et")],
                                      "Trace_Evidence", par=12, xmx="3g")
        ok = sum(v.get("verifyOK", 0) for v in res["verdicts"])
        if ok == 0:
            raise Machinery("no honest token verified: vacuous")
        ck.extra.update(by_kind=stats.get("by_kind"), verified=ok)
    finally:
        _rm(dom)
    _ev_hist(ck, 150 if ck.tier == "quick" else 5000, allalgs=ck.tier != "quick")


def C03(ck):
    ck.rule = ("the valid claims-sets of spec/Gen_Valid.tla (every 40th in quick, every 3rd in thorough; built through setters, as "
               "literals, by decoding; extension profile X2) x algorithms (ES256 EdDSA PS256 plus one of ES384 ES512 PS384 PS512 in rotation in quick, all seven in thorough) with fresh "
               "keys: SetClaims, ValidateAndSign (Sign for every 5th), token parsed by the independent reader, "
               "DecodeAndValidateEvidenceFromCOSE, Verify on both Evidence objects with the right and a wrong key; judged by "
               "Trace_Wire!SignRTOK (tag 18 / 4-array / protected = {1: alg} / payload byte-identical to the validated encoding and of "
               "the profile's wire format / decoded claims equal claim for claim / both verifications succeed); plus TLC-simulated "
               "Evidence histories (re-signing after decode, two signs); non-trivial = every (set, algorithm) pair")
    ck.assumptions = TRUST + ["go-cose's arithmetic is exercised, not modelled"]
    ck.add_model(vlib.mc("MC_Evidence", "MC_Evidence_replay.cfg"))
    if ck.tier != "quick":
        ck.add_model(vlib.mc("Psa", "MC_Psa.cfg", timeout=3500, workers=12))     # EmittedTokensConform on the composition
    valid = vlib.gen_export("Gen_Valid", "Gen_Valid.cfg", "valid")
    try:
        ck.run_and_judge(["ev-signrt", "-seed", ck.seed, "-tier", ck.tier, "-n", _stride(ck, 40, 3), "-reg", "X2", "-chunk", 3000,
                          "-in", valid, "-out", ck.path("sr")], "Trace_Wire", par=12, xmx="3g")
    finally:
        _rm(valid)
    _ev_hist(ck, 200 if ck.tier == "quick" else 5000, allalgs=ck.tier != "quick")


def C08(ck):
    ck.rule = ("claims-sets of the C01 enumeration (bases, all singles on three bases, pairs (1/5 in quick), component lists, random "
               "products), valid and invalid, through the seven validating entry points - SetClaims, ValidateAndEncodeClaimsToCBOR / "
               "JSON, ValidateAndSign, DecodeAndValidateClaimsFromCBOR / JSON, DecodeAndValidateEvidenceFromCOSE - next to Validate() and "
               "the non-validating sibling; judged by Trace_Wire!GatesOK against PsaClaims!Valid; the signing gates also inside "
               "TLC-simulated Evidence histories (MC_Evidence: GateNeverPassesInvalid); non-trivial = invalid set")
    ck.assumptions = TRUST
    ck.add_model(vlib.mc("MC_Evidence", "MC_Evidence_replay.cfg"))
    ck.add_model(vlib.mc("MC_Claims", "MC_Claims_decoded.cfg"))
    dom = vlib.gen_export("Gen_Claims", "Gen_Claims.cfg", "domains")
    try:
        ck.run_and_judge(["gates", "-seed", ck.seed, "-tier", ck.tier, "-reg", "X2", "-chunk", 3000, "-in", dom, "-out", ck.path("ga")], "Trace_Wire",
                         par=12, xmx="3g")
    finally:
        _rm(dom)
    _ev_hist(ck, 300 if ck.tier == "quick" else 3000)


def C20(ck):
    ck.rule = ("envelopes assembled by the independent encoder: every tag 0..30 and none (minimal and 1/2/4/8-byte encodings), more tags "
               "(17 Mac0, 98 Sign, 61, 55799), doubly tagged, array lengths 0..6, each of the four elements replaced by each of 24 item kinds "
               "(other types, null, empty, wrapped / double-wrapped payload, non-map payload, two maps, indefinite string), tagged and "
               "untagged, pairs of replacements (1/6 in quick, all in thorough), trailing bytes, indefinite array, map envelope, the four "
               "TF-M vectors (Sign1 and Mac0); DecodeEvidenceFromCOSE and Evidence.UnmarshalCOSE; judged against PsaEvidence!EnvelopeOK "
               "(success => tag 18, 4 elements of the right types, non-empty signature, nothing after, map payload); also the C02 tamper "
               "run; non-trivial = every envelope")
    ck.assumptions = TRUST + ["the independent CBOR encoder / reader harness/cborx"]
    ck.add_model(vlib.mc("MC_Evidence", "MC_Evidence_replay.cfg"))
    dom = vlib.gen_export("Gen_Claims", "Gen_Claims.cfg", "domains")
    try:
        stats, res = ck.run_and_judge(["ev-envelope", "-seed", ck.seed, "-tier", ck.tier, "-in", dom, "-in2", vlib.REPO + "/testvectors/tf-m",
                                       "-out", ck.path("en")], "Trace_Evidence", par=12, xmx="3g")
        ok = sum(v.get("verifyOK", 0) for v in res["verdicts"])
        if ok == 0:
            raise Machinery("no envelope decoded: vacuous")
        ck.extra.update(decoded=ok)
        ck.run_and_judge(["ev-tamper", "-seed", ck.seed, "-tier", ck.tier, "-chunk", 20000, "-in", dom, "-out", ck.path("et")],
                         "Trace_Evidence", par=12, xmx="3g")
    finally:
        _rm(dom)


def _bytes_fuzz(ck):
    plan = vlib.gen_export("PsaInputs", "PsaInputs.cfg", "plan")
    dom = vlib.gen_export("Gen_Claims", "Gen_Claims.cfg", "domains")
    try:
        stats, res = ck.run_and_judge(["bytes-fuzz", "-seed", ck.seed, "-tier", ck.tier, "-chunk", 50000, "-in", plan, "-in2", dom,
                                       "-out", ck.path("bf")], "Trace_Codec", par=10, xmx="3g", guarded=True, timeout=7200)
        acc, rej = _need_both_polarities(res, "bytes")
        ck.extra.update(by_kind=stats.get("by_kind"), decoded_ok=acc, decode_errors=rej)
    finally:
        _rm(plan, dom)


def _reader(ck):
    stats, res = ck.run_and_judge(["codec-reader", "-seed", ck.seed, "-tier", ck.tier, "-chunk", 20000, "-out", ck.path("rd")], "Trace_Codec",
                                  par=10, xmx="3g", guarded=True, timeout=7200)
    _need_both_polarities(res, "reader")


def C05(ck):
    ck.rule = ("byte strings built after the plan TLC exports from spec/PsaInputs.tla from 13 valid seeds (CBOR tokens of both profiles "
               "and an extension, COSE envelopes, JSON documents): 18 replacements and 8 container edits at EVERY node (also inside the "
               "COSE payload), truncation at every offset, values of every node's head byte (all 256 in thorough), 1 710 hostile length "
               "headers, 108 nestings, JSON member replacements / duplicates, seeded multi-byte edits; each through every matching entry "
               "point of 23 (evidence, claims, deprecated aliases, per-type unmarshalers, extension claims, populate helpers); whatever "
               "is returned goes through Validate, all getters, component getters, both encoders (validating and not) and Verify with "
               "right / wrong / nil / wrong-type keys; plus ALL inputs of <= 4 (5) bytes over a 16-byte header alphabet through "
               "PopulateStructFromCBOR judged against the reader machine of PsaCodec (exact ok / err and key list); outcome alphabet "
               "{ok, err}; the coverage-guided-fuzzing clause of the quantifier is not claimed; non-trivial = anything but a plain error")
    ck.assumptions = TRUST + ["a worker killed by the input is recorded by the orchestrator and reported as outcome oom / timeout / crash"]
    ck.add_model(vlib.mc("MC_Codec", "MC_Codec.cfg"))
    ck.add_model(vlib.tlaps("PsaCodecReaderProofs", expect_min=60))    # the reader machine for inputs of any length
    _reader(ck)
    _bytes_fuzz(ck)


def C06(ck):
    ck.rule = ("the C05 input plan (1 710 hostile headers of major type 2..6 declaring 2^8..2^63 with 0 / 1 / 5 following items at six "
               "placements, nesting to depth 10 000, honest inputs up to 64 KiB+, every structural mutation) with runtime.MemStats "
               "TotalAlloc and wall clock measured around each call in a single-goroutine worker under an address-space limit; bound "
               "1 MiB + 1 KiB per input byte and 5 s (Trace_Codec!MemOK); MC_Codec proves ReservedBounded on the reader machine; "
               "non-trivial = anything but a plain error")
    ck.assumptions = TRUST + ["runtime.MemStats.TotalAlloc as the instrument for allocated bytes; RLIMIT_AS on the worker"]
    ck.add_model(vlib.mc("MC_Codec", "MC_Codec.cfg"))
    ck.add_model(vlib.tlaps("PsaCodecReaderProofs", expect_min=60))    # the reader machine for inputs of any length
    _reader(ck)
    _bytes_fuzz(ck)


def C15(ck):
    ck.rule = ("struct shapes described by reflection (flat with omitempty / '-' / untagged fields, one and two levels of embedded "
               "struct, embedded interface holding a struct or nil, all-optional, duplicate key across embedding, extension claims on "
               "both base profiles) x every subset of their optional fields x seeded values, in CBOR and JSON: key list and length "
               "header of the output (independent readers), stability, populate into a fresh struct, equivalence with the plain "
               "marshallers, every single missing key, a duplicate CBOR key - judged against PsaCodec!Serialize / PopulateOK; synthetic "
               "structs of 0..70 000 keys around the 23/24, 255/256, 65535/65536 header boundaries; all inputs of <= 4 (5) bytes through "
               "the reader machine; non-trivial = every shape instance")
    ck.assumptions = TRUST + ["the harness's reflection-based description of its own struct types"]
    ck.add_model(vlib.mc("MC_Codec", "MC_Codec.cfg"))
    ck.add_model(vlib.mc("MC_JsonKeys", "MC_JsonKeys.cfg"))
    dom = vlib.gen_export("Gen_Claims", "Gen_Claims.cfg", "domains")
    try:
        ck.run_and_judge(["codec-shapes", "-seed", ck.seed, "-tier", ck.tier, "-chunk", 5000, "-in", dom, "-out", ck.path("sh")], "Trace_Codec",
                         par=10, xmx="3g")
    finally:
        _rm(dom)
    _reader(ck)


def C17(ck):
    import glob
    import json
    import os
    ck.rule = ("schedules generated by TLC from spec/PsaConcurrent.tla: batches of 16 (quick) / 64 (thorough) goroutines, each running one "
               "of 18 operations (create, decode CBOR / JSON / COSE incl. an extension profile, validate, getters, encode, "
               "validate-and-encode, sign with shared claims, verify, build-and-sign, setter history) on private objects or on 6 shared "
               "ones (claims of both profiles, an extension, a decoded no-measurements set, two decoded Evidence); a batch is released at "
               "once with no intermediate synchronisation; the harness is built with the Go race detector and started cold in 16 (64) "
               "separate processes; every concurrent result is compared with the same call made sequentially afterwards and the shared "
               "objects are deep-snapshotted; race reports become Race events; non-trivial = every operation instance")
    ck.assumptions = TRUST + ["the Go race detector observes the executions TLC's schedules drive; a race it does not observe in them is not excluded"]
    ck.add_model(vlib.mc("PsaConcurrent", "MC_Concurrent.cfg"))
    quick = ck.tier == "quick"
    sched, ns = vlib.gen_sim("PsaConcurrent", "Sim_Concurrent.cfg" if quick else "Sim_Concurrent_big.cfg", "sched", 200 if quick else 5000,
                            200 if quick else 1200, ck.seed, procs=8 if quick else 16)
    dom = vlib.gen_export("Gen_Claims", "Gen_Claims.cfg", "domains")
    procs = 16 if quick else 64
    racedir = ck.path("race")
    os.makedirs(racedir, exist_ok=True)
    try:
        from concurrent.futures import ThreadPoolExecutor
        vlib.build_harness(race=True)

        def part(k):
            st, _ = vlib.harness(["conc", "-seed", ck.seed, "-part", k, "-of", procs, "-in", sched, "-in2", dom, "-out", ck.path("cc%d" % k)],
                                 race=True, env={"GORACE": "log_path=%s/race halt_on_error=0 exitcode=0" % racedir}, timeout=3000)
            return st
        with ThreadPoolExecutor(max_workers=8) as ex:
            stats = list(ex.map(part, range(procs)))
        files = [f for st in stats for f in st["files"]]
        # race reports -> events
        reports = []
        for f in sorted(glob.glob(racedir + "/race*")):
            txt = open(f).read()
            for chunk in txt.split("WARNING: DATA RACE")[1:]:
                reports.append(chunk[:3000])
        if reports:
            rf = ck.path("race.0.ndjson")
            seen = set()
            with open(rf, "w") as w:
                for r in reports:
                    key = "\n".join(x.strip() for x in r.splitlines() if "/repo/" in x)[:600]
                    if key in seen:
                        continue
                    seen.add(key)
                    w.write(json.dumps(dict(b=0, i=0, op="Race", name="race", obj="", res="", seq="", panicked=False, snapEq=True,
                                            where=key, report=r)) + "\n")
            files.append(rf)
        merged = dict(events=sum(s["events"] for s in stats) + (len(seen) if reports else 0), behaviours=sum(s["behaviours"] for s in stats),
                      distinct_nontrivial=sum(s["distinct_nontrivial"] for s in stats), samples=stats[0].get("samples", []), files=files)
        res = vlib.judge("Trace_Concurrent", files, par=10, prop=ck.prop, xmx="3g")
        ck.add_stats(merged)
        ck.judged.append(dict(module="Trace_Concurrent", events=res["n"], states=res["states"], driver="conc x %d processes" % procs))
        for (f, i, ev) in res["bad"]:
            ck.violations.append((ev, "Trace_Concurrent event %d of %s" % (i, os.path.basename(f)), ["conc"]))
        ops = set()
        objs = set()
        for v in res["verdicts"]:
            ops |= set(v.get("ops", []))
            objs |= set(v.get("objs", []))
        if len(ops - {"race"}) < 18 or len(objs) < 7:
            raise Machinery("schedules do not cover all operations / objects: %d ops %d objects" % (len(ops), len(objs)))
        ck.extra.update(schedules=ns, processes=procs, race_reports=len(reports))
        for f in files:
            _rm(f)
    finally:
        _rm(sched, dom)
