"""One function per property: what is model-checked, what is run against the real code,
and which trace spec judges it.  (DESIGN.md section 3.)"""
import vlib
from vlib import Machinery

TRUST = [
    "TLC 1.8.0 evaluates the TLA+ operators correctly",
    "the harness's abstraction function Abs and its concretisation (harness/abs.go) contain no rule of the library",
    "go toolchain; for signature properties go-cose's arithmetic is exercised, not modelled",
]


def C14(ck):
    ck.rule = ("all 65 536 lifecycle values, one event each: mapping, validity, name, validator, both profiles' setter, "
               "getter after the setter, getter on a literal and on a JSON-decoded claims-set; non-trivial = value within 1 of "
               "a range boundary (v mod 4096 in {0,255,256,4095})")
    ck.assumptions = TRUST
    ck.exhaustive = True
    ck.add_model(vlib.mc("MC_Claims", "MC_Claims_lc.cfg"))
    stats, res = ck.run_and_judge(["lc", "-out", ck.path("lc")], "Trace_LC")
    for v in res["verdicts"]:
        if not v.get("cover") or v.get("nvalid") != 1792 and not res["bad"]:
            if not v.get("cover"):
                raise Machinery("coverage post-condition failed: trace is not the 65 536 values in order")
